#!/usr/bin/env python3
"""Long-lived expat driver for `svgdx-verif selftest`: reads one JSON string per line (an XML document),
writes one JSON line: {"ok": true, "events": [...]} or {"ok": false, "err": "..."}."""
import sys, json
from xml.parsers import expat

def parse(doc):
    ev = []
    buf = []
    state = {"cdata": False}
    def flush():
        if buf:
            ev.append(["cdata" if state["cdata"] else "text", "".join(buf)])
            buf.clear()
    p = expat.ParserCreate()
    p.ordered_attributes = True
    p.buffer_text = False
    def start(name, attrs):
        flush()
        ev.append(["start", name, [[attrs[i], attrs[i + 1]] for i in range(0, len(attrs), 2)]])
    def end(name):
        flush(); ev.append(["end", name])
    def chars(data):
        buf.append(data)
    def comment(data):
        flush(); ev.append(["comment", data])
    def pi(target, data):
        flush(); ev.append(["pi", target, data])
    def scd():
        flush(); state["cdata"] = True
    def ecd():
        if not buf:
            ev.append(["cdata", ""])
        flush(); state["cdata"] = False
    def decl(version, encoding, standalone):
        ev.append(["decl"])
    def doctype(name, sysid, pubid, has_internal):
        flush(); ev.append(["doctype", name])
    p.StartElementHandler = start
    p.EndElementHandler = end
    p.CharacterDataHandler = chars
    p.CommentHandler = comment
    p.ProcessingInstructionHandler = pi
    p.StartCdataSectionHandler = scd
    p.EndCdataSectionHandler = ecd
    p.XmlDeclHandler = decl
    p.StartDoctypeDeclHandler = doctype
    p.Parse(doc.encode("utf-8"), True)
    flush()
    return ev

for line in sys.stdin:
    line = line.strip()
    if not line:
        continue
    doc = json.loads(line)
    try:
        out = {"ok": True, "events": parse(doc)}
    except expat.ExpatError as e:
        out = {"ok": False, "err": str(e)}
    except Exception as e:  # e.g. surrogate encode errors
        out = {"ok": False, "err": "driver: " + repr(e)}
    sys.stdout.write(json.dumps(out) + "\n")
    sys.stdout.flush()
