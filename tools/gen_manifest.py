#!/usr/bin/env python3
"""Regenerate /verif/MANIFEST.json from the table below (kept in one place so it stays valid)."""
import json, subprocess
CHECKS = {
 # id: (category, technique, text, note, design_ref)
 "C02": ("exploration", "property-based testing: hostile-string injection at every value position; oracle = independent strict XML parser (sxml, cross-checked against expat)",
         "Generated-input search: every successful transform's output must be accepted by an independent strict XML 1.0 parser and have a proper <svg> root. Exploration is the right level: the property quantifies over all inputs and configurations, so it can be refuted by one input but never proved by testing.",
         "Trusts sxml (harness parser; differentially tested against Python expat in setup) and the generators' coverage of value positions; inputs on which the transform fails are outside the property.", "DESIGN.md §6 C02"),
}
NOT_YET = {}
def main():
    props=[json.loads(l) for l in open('/verif/properties.jsonl')]
    checks=[]
    for p in props:
        i=p['id']
        if i in CHECKS:
            cat,tech,text,note,ref=CHECKS[i]
            checks.append({"property_id":i,"quick_cmd":f"./run.sh {i} quick","thorough_cmd":f"./run.sh {i} thorough",
              "evidence_file":f"/verif/evidence/{i}.json","replay_cmd_template":f"./run.sh {i} replay {{path}}",
              "engine":"pbt","level_claimed":{"category":cat,"text":text,"design_ref":ref},"level_note":note,"technique":tech})
    na=[{"property_id":p['id'],"reason":NOT_YET.get(p['id'],"check not built yet in this round (planned: see DESIGN.md §6); not claimed until its check exists and is silent on the unchanged tree")} for p in props if p['id'] not in CHECKS]
    m={"version":1,"setup_cmd":"./run.sh setup",
       "hooks":{"guard":"verif (reserved cargo feature name; no hook is compiled into /repo)","enable":"none needed: checks link the unmodified library and run the unmodified binaries","baseline_off_cmd":"cd /repo && cargo test --workspace --no-fail-fast --offline","source_commits":[],"add_only":True},
       "engines":[{"name":"pbt","path":"/verif/harness","serves_properties":sorted(CHECKS),"kind_free_text":"proptest-driven structured generators + explicit oracles, cases executed in sandboxed worker subprocesses (crash/hang capture), shrinking to replay files"}],
       "checks":checks,"not_applicable":na,
       "notes":"Known findings: /verif/known_findings.json (open entries are announced as KNOWN-FINDING lines; fixed entries are replayed as regressions). See DESIGN.md."}
    json.dump(m,open('/verif/MANIFEST.json','w'),indent=1)
    print(len(checks),'checks,',len(na),'not claimed')
main()
