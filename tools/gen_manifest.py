#!/usr/bin/env python3
"""Regenerate /verif/MANIFEST.json from the table below (kept in one place so it stays valid)."""
import json, subprocess
CHECKS = {
 # id: (category, technique, text, note, design_ref)
 "C01": ("exploration", "property-based testing + shape-parameter stress in a subprocess sandbox: crash / abort / panic / CPU-budget hang observation at process level, through library, CLI and server",
         "Generated-input search over bytes x configs (limits <= defaults): DocGen with junk damage, 33 size-parameterised generators for every recursive or scanning mechanism, byte-level mutants and splices of the repository corpus, raw bytes; each case runs in a sandboxed worker on a 2 MiB stack with panic capture, signal capture, an address-space limit and a two-stage CPU budget; a process-level phase drives the real svgdx binary and a live svgdx-server. Exploration: totality over all byte strings can be refuted, not proved, by testing.",
         "Termination is judged by CPU budget (20 s, then 200 s alone), so polynomial slowness is not flagged; release-profile stack frames (opt-level s) are assumed representative; libFuzzer campaign not part of the registered commands.", "DESIGN.md §6 C01"),
 "C03": ("exploration", "property-based testing: XML-grammar document generator; round-trip oracle comparing infosets parsed by an independent strict parser",
         "Generated well-formed namespaced documents (every construct of the XML grammar, svgdx trigger attributes, references, prolog/epilog) and the same subtrees embedded in svgdx documents; oracle: event-list equality of sxml(input) and sxml(output) modulo attribute order and empty-vs-pair.",
         "Trusts sxml (cross-checked against expat); TAB/LF/CR in attribute values and CR anywhere are outside the generated domain (no normalisation is applied by either parser); open known finding KF-C03-1 (class list re-serialisation) is excluded by exact signature.", "DESIGN.md §6 C03"),
 "C05": ("exploration", "property-based testing: round trip / fixed point T_c2(T_c1(x)) == T_c1(x) byte for byte over the union of svgdx generators and independently drawn config pairs",
         "Generated svgdx documents covering every output-producing feature x pairs of configurations; the second transform must succeed and reproduce the first output exactly.",
         "Only documents rooted at <svg> on which the first transform succeeds count (others skipped and counted).", "DESIGN.md §6 C05"),
 "C06": ("exploration", "property-based testing: repetition differential (6 in-process repetitions with fresh hash states + fresh processes) with a seed-sensitivity guard",
         "Generated documents weighted towards hash-order and PRNG exposure (>= 2 numeric-suffix pattern classes, random functions under random seeds, multi-error documents incl. several failing elements on one line); outputs / error texts must be identical across repetitions in one process and across fresh svgdx processes.",
         "Hidden nondeterminism must be observable through differing hash seeds or processes within the run; stderr Debug text of the CLI is not compared.", "DESIGN.md §6 C06"),
 "C07": ("exploration", "stateful property-based testing: generated request histories over 7 front-ends executed sequentially and in concurrent batches against a fresh-process reference; fault part with pre-existing output files; same-file spellings",
         "Histories of (front-end, document, config) requests against the library, the svgdx binary (4 I/O modes) and one long-lived svgdx-server, compared with a reference transform in a fresh process; failing requests must leave a pre-existing output file byte-identical; output==input spellings (./, absolute, d/../, symlink, hard link) must be refused.",
         "Interleavings are sampled, not enumerated (the harness does not own the tokio/OS scheduler); --watch is not exercised; the server's documented 400 for empty output is not compared.", "DESIGN.md §6 C07"),
 "C08": ("exploration", "property-based testing: generated documents; oracle = independent geometric recomputation of the content extent from the parsed output",
         "Generated rooted documents over all rendered element kinds, transforms, clips, uses, boxes, points, defs/specs/symbol content and forward references x border, scale and the 8 subsets of author-supplied width/height/viewBox with units; the extent is recomputed from the output's own geometry and compared with the synthesised root attributes.",
         "Non-rendered containers outside defs, transform+clip on one element and text metrics are outside the generated domain; rounding is accepted either way within 0.0015 of an integer.", "DESIGN.md §6 C08"),
 "C09": ("exploration", "property-based testing against an independent reference layout model (f64) with propagated rounding-error bounds",
         "Generated reference DAGs and chains (depth up to 60) over the full relspec table; every element's expected box is computed by a model written from the layout reference and compared with the geometry read from the output.",
         "Forms the documentation does not pin down are not generated (listed in evidence assumptions); tolerance is the propagated 3-decimal printing error.", "DESIGN.md §6 C09"),
 "C10": ("exploration", "metamorphic property-based testing: all n! sibling permutations (n <= 5, exhaustive) or 60 sampled orders must reproduce the baseline geometry; negative family must fail in every order",
         "Generated side-effect-free reference DAGs with connector/surround/expression referrers; the all-backward order is the baseline (itself checked against the C09 model); every permutation must succeed with identical per-id geometry and document-order output; unknown ids, cycles in every spelling and bbox-less targets must fail in every order.",
         "Side effects (var, random, ^) are excluded by construction, so document order is the only varying factor.", "DESIGN.md §6 C10"),
 "C11": ("exploration", "bounded-exhaustive enumeration of the discrete product (4 shapes x 36 constraint pairs x spellings x deltas) with seeded boxes; oracle = canonical native geometry and attribute-set check",
         "Every combination of shape, per-axis constraint pair, shorthand/longhand spelling, separator, one/two values and delta form is enumerated (exhaustive for the discrete part), each with several boxes; the output must carry exactly the shape's native attributes with the intended values.",
         "Size deltas only where documented behaviour exists (rect, line with explicit lengths); circles get square boxes.", "DESIGN.md §6 C11"),
 "C12": ("exploration", "property-based testing: geometric validity predicates (enclosure / containment, sampled boundaries) recomputed from the output",
         "Generated lists of referenced shapes x container kinds x surround/inside x margin forms; surround must equal / circumscribe the union grown by the margin, inside must lie within every host and within the margin-shrunk intersection.",
         "Percent margins may be taken of width or height; open known finding KF-C12-1 (round container inside round hosts) is excluded by exact signature.", "DESIGN.md §6 C12"),
 "C13": ("exploration", "property-based testing + exhaustive 4x4 direction table: validity predicates over connector endpoints and segments recomputed from the output",
         "Generated placements (9 sectors, overlapping, touching, nested) x endpoint specs x connector kinds; endpoints must sit on given points or realise the minimal candidate distance; h/v through the overlap middle; corner polylines axis-parallel and perpendicular at both ends.",
         "Named locations on h/v connectors and corner locations / literals on corner polylines are outside the generated domain (statement clauses conflict / no direction exists).", "DESIGN.md §6 C13"),
 "C14": ("exploration", "property-based testing against a reference expression evaluator (f32 op-by-op), a recomputed Pcg32 stream for once-ness, and a must-fail family of single-edit malformed expressions",
         "Random ASTs over all operators and 42 numeric built-ins printed with minimal parentheses/whitespace in six attribute contexts; random-function occurrences in every context/loop/reuse compared with the harness's own PRNG stream; damaged expressions must fail the transform.",
         "The reference uses the same IEEE f32 primitives as the implementation (the statement fixes single precision); open known finding KF-C14-1 (random function in a specs template) excluded by exact signature.", "DESIGN.md §6 C14"),
 "C02": ("exploration", "property-based testing: hostile-string injection at every value position; oracle = independent strict XML parser (sxml, cross-checked against expat)",
         "Generated-input search: every successful transform's output must be accepted by an independent strict XML 1.0 parser and have a proper <svg> root. Exploration is the right level: the property quantifies over all inputs and configurations, so it can be refuted by one input but never proved by testing.",
         "Trusts sxml (harness parser; differentially tested against Python expat in setup) and the generators' coverage of value positions; inputs on which the transform fails are outside the property.", "DESIGN.md §6 C02"),
}
NOT_YET = {}
def main():
    props=[json.loads(l) for l in open('/verif/properties.jsonl')]
    checks=[]
    for p in props:
        i=p['id']
        if i in CHECKS:
            cat,tech,text,note,ref=CHECKS[i]
            checks.append({"property_id":i,"quick_cmd":f"./run.sh {i} quick","thorough_cmd":f"./run.sh {i} thorough",
              "evidence_file":f"/verif/evidence/{i}.json","replay_cmd_template":f"./run.sh {i} replay {{path}}",
              "engine":"pbt","level_claimed":{"category":cat,"text":text,"design_ref":ref},"level_note":note,"technique":tech})
    na=[{"property_id":p['id'],"reason":NOT_YET.get(p['id'],"check not built yet in this round (planned: see DESIGN.md §6); not claimed until its check exists and is silent on the unchanged tree")} for p in props if p['id'] not in CHECKS]
    m={"version":1,"setup_cmd":"./run.sh setup",
       "hooks":{"guard":"verif (reserved cargo feature name; no hook is compiled into /repo)","enable":"none needed: checks link the unmodified library and run the unmodified binaries","baseline_off_cmd":"cd /repo && cargo test --workspace --no-fail-fast --offline","source_commits":[],"add_only":True},
       "engines":[{"name":"pbt","path":"/verif/harness","serves_properties":sorted(CHECKS),"kind_free_text":"proptest-driven structured generators + explicit oracles, cases executed in sandboxed worker subprocesses (crash/hang capture), shrinking to replay files"}],
       "checks":checks,"not_applicable":na,
       "notes":"Known findings: /verif/known_findings.json (open entries are announced as KNOWN-FINDING lines; fixed entries are replayed as regressions). See DESIGN.md."}
    json.dump(m,open('/verif/MANIFEST.json','w'),indent=1)
    print(len(checks),'checks,',len(na),'not claimed')
main()
