#!/bin/bash
# tools/keep_mutant.sh <out-name> <seeded-dir-name>  : copy a confirmed seeded change into /verif/seeded/
set -eu
src=${3:-/tmp/mut-out}/$1; dst=/verif/seeded/$2
mkdir -p "$dst"
cp -r "$src"/. "$dst"/
rm -f "$dst"/confirm_*.log
python3 - "$dst" "$(git -C /repo rev-parse --short HEAD)" <<'PY'
import json,sys
d,base=sys.argv[1],sys.argv[2]
m=json.load(open(d+'/meta.json'))
m['base_commit']=base
m['confirmed']={"how":"tools/confirm_mutant.sh in a scratch worktree: demo.sh exits 0 on the clean tree; with patch.diff applied `cargo test --offline --workspace` passes (327 tests + doctest) and demo.sh exits non-zero","by":"main session"}
json.dump(m,open(d+'/meta.json','w'),indent=1)
PY
echo kept "$dst"
