#!/usr/bin/env python3
"""Build the committed seed corpus: repo examples + raw-string XML inputs lifted from the repo's tests."""
import re, sys, hashlib, pathlib
out = pathlib.Path('/verif/fuzz/seeds'); out.mkdir(parents=True, exist_ok=True)
n = 0
for p in sorted(pathlib.Path('/repo/examples').glob('*.xml')):
    (out / f'ex_{p.stem}.xml').write_bytes(p.read_bytes()); n += 1
pat = re.compile(r'r(#+)"(.*?)"\1', re.S)
seen = set()
for p in sorted(pathlib.Path('/repo/tests').rglob('*.rs')) + sorted(pathlib.Path('/repo/src').glob('*.rs')):
    for m in pat.finditer(p.read_text()):
        s = m.group(2)
        if '<' not in s or len(s) > 20000: continue
        h = hashlib.sha1(s.encode()).hexdigest()[:10]
        if h in seen: continue
        seen.add(h)
        (out / f't_{p.stem}_{h}.xml').write_text(s); n += 1
print(n, 'seed files')
