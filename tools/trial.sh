#!/bin/bash
# tools/trial.sh <seeded-name> <check-id> [tier]  : apply a seeded change to /repo, run the check, undo. Records the result.
set -u
name="$1"; id="$2"; tier="${3:-quick}"
d=/verif/seeded/$name
[ -z "$(git -C /repo status --porcelain --untracked-files=no)" ] || { echo "/repo not clean"; exit 2; }
git -C /repo apply "$d/patch.diff" || { echo "patch does not apply"; exit 3; }
out=$(cd /verif && ./run.sh "$id" "$tier" 2>&1); rc=$?
git -C /repo checkout -- .
# rebuild the harness against the restored tree so that no stale binary is left behind
( cd /verif/harness && cargo build --release --offline >/dev/null 2>&1 )
echo "$out" | grep -E "^VIOLATION|^FAIL|INCONCLUSIVE|BROKEN|BUILD FAILED" | cut -c1-400 | head -5
res="missed"; [ $rc -eq 1 ] && res="caught"; [ $rc -ge 2 ] && res="inconclusive(rc=$rc)"
echo "TRIAL $name vs $id $tier: $res"
python3 - "$d" "$id" "$tier" "$res" <<'PY'
import json,sys,os
d,i,t,r=sys.argv[1:5]
p=d+'/trials.json'
x=json.load(open(p)) if os.path.exists(p) else {}
x[f"{i}:{t}"]=r
json.dump(x,open(p,'w'),indent=1)
PY
