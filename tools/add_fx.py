#!/usr/bin/env python3
"""tools/add_fx.py <FX-id> <property> <commit> <replay-file> <known/name.json> <title>: record a repaired defect (development aid,
never run by a check)."""
import json, sys
fid, prop, commit, src, name, title = sys.argv[1:7]
d = json.load(open(src))
json.dump({"property": prop, "case": d["case"]}, open('/verif/' + name, 'w'), indent=1)
k = json.load(open('/verif/known_findings.json'))
assert not any(e['id'] == fid for e in k['findings']), "id in use"
k['findings'].append({"id": fid, "property": prop, "status": "fixed", "title": title, "sig": prop.lower(), "repro": name, "fix_commit": commit,
                      "line": f"fixed: property={prop} {commit} {title}"})
json.dump(k, open('/verif/known_findings.json', 'w'), indent=1)
print("recorded", fid)
