#!/bin/bash
# tools/silence.sh <tier> <seed>... : run every check under each seed on the unchanged tree; print one line per run.
tier="$1"; shift
cd /verif
for seed in "$@"; do
  for i in C01 C02 C03 C04 C05 C06 C07 C08 C09 C10 C11 C12 C13 C14 C15 C16 C17 C18 C19 C20; do
    s=$(date +%s)
    out=$(VERIF_SEED=$seed ./run.sh $i $tier 2>&1); rc=$?
    e=$(( $(date +%s) - s ))
    echo "seed=$seed $i $tier rc=$rc ${e}s $(echo "$out" | grep -E "^VIOLATION|BROKEN|INCONCLUSIVE" | head -2 | cut -c1-200)"
  done
done
