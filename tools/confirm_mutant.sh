#!/bin/bash
# confirm a seeded change produced by a sub-agent: tools/confirm_mutant.sh <out-dir-name> <worktree>
# (1) clean worktree at /repo HEAD: demo passes; (2) patch applies; tests pass; demo fails.
set -u
name="$1"; wt="$2"; out=${3:-/tmp/mut-out}/$name
export CARGO_TARGET_DIR="$wt/target" CARGO_NET_OFFLINE=true
cd "$wt" || exit 2
git checkout -q -- . ; git stash list | grep -q . && git stash drop -q
git checkout -q --detach "$(git -C /repo rev-parse HEAD)" || exit 2
echo "== clean tree at $(git rev-parse --short HEAD): demo"
bash "$out/demo.sh" "$wt" >"$out/confirm_clean.log" 2>&1; rc_clean=$?
echo "demo on clean tree: exit $rc_clean"
git apply "$out/patch.diff" || { echo "PATCH DOES NOT APPLY to current /repo HEAD"; exit 3; }
echo "== patched: cargo test"
cargo test --offline --workspace --no-fail-fast >"$out/confirm_tests.log" 2>&1; rc_t=$?
grep -E "^test result" "$out/confirm_tests.log"
bash "$out/demo.sh" "$wt" >"$out/confirm_patched.log" 2>&1; rc_p=$?
echo "tests exit $rc_t; demo on patched tree: exit $rc_p"
git checkout -q -- .
if [ $rc_clean -eq 0 ] && [ $rc_t -eq 0 ] && [ $rc_p -ne 0 ]; then echo "CONFIRMED $name"; exit 0; else echo "NOT CONFIRMED $name"; exit 1; fi
