#!/bin/bash
# tools/trial_all.sh <tier> <name>... : run each seeded change against its property's check (sequentially; /repo is patched and restored)
tier="$1"; shift
cd /verif
for name in "$@"; do
  id=${name%%-*}
  d=/verif/seeded/$name
  [ -z "$(git -C /repo status --porcelain --untracked-files=no)" ] || { echo "/repo not clean"; exit 2; }
  git -C /repo apply "$d/patch.diff" || { echo "TRIAL $name: patch does not apply"; continue; }
  s=$(date +%s)
  out=$(./run.sh "$id" "$tier" 2>&1); rc=$?
  git -C /repo checkout -- .
  res="missed"; [ $rc -eq 1 ] && res="caught"; [ $rc -ge 2 ] && res="inconclusive(rc=$rc)"
  echo "TRIAL $name vs $id $tier: $res ($(( $(date +%s) - s ))s) $(echo "$out" | grep -E "^FAIL|^regression|BROKEN|INCONCLUSIVE" | head -1 | cut -c1-260)"
  python3 - "$d" "$id" "$tier" "$res" <<'PY'
import json,sys,os
d,i,t,r=sys.argv[1:5]
p=d+'/trials.json'
x=json.load(open(p)) if os.path.exists(p) else {}
x[f"{i}:{t}"]=r
json.dump(x,open(p,'w'),indent=1)
PY
done
( cd /verif/harness && cargo build --release --offline >/dev/null 2>&1 )
