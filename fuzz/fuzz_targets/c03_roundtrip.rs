#![no_main]
// libFuzzer target for C03: bytes -> (configuration selector, document) -> the property's own oracle.
use libfuzzer_sys::fuzz_target;

fuzz_target!(|data: &[u8]| {
    svgdx_verif::fuzzrider::in_target("C03", data);
});
