#!/bin/bash
# ./run.sh setup
# ./run.sh <ID> quick|thorough
# ./run.sh <ID> replay <path>
# Exit: 0 property held on everything explored; 1 VIOLATION (line printed); 2 machinery could not run / inconclusive.
set -u
cd /verif || exit 2
export CARGO_NET_OFFLINE=true
mkdir -p /verif/target /verif/evidence /verif/replays
BIN=/verif/target/release/svgdx-verif

build_harness() {
  # svgdx is a path dependency on /repo: cargo rebuilds it whenever the working tree changed
  ( cd /verif/harness && cargo build --release --offline ) >/verif/target/build-harness.$$.log 2>&1
  rc=$?
  if [ $rc -ne 0 ]; then
    cat /verif/target/build-harness.$$.log >&2; rm -f /verif/target/build-harness.$$.log
    echo "BUILD FAILED (harness against /repo working tree): no verdict" >&2
    exit 2
  fi
  rm -f /verif/target/build-harness.$$.log
}

build_bins() {
  # the real svgdx / svgdx-server binaries, built from /repo's working tree with the repo's own release profile
  cargo build --release --offline --bins --manifest-path /repo/Cargo.toml --target-dir /verif/target/repo-bins >/verif/target/build-bins.$$.log 2>&1
  rc=$?
  if [ $rc -ne 0 ]; then
    cat /verif/target/build-bins.$$.log >&2; rm -f /verif/target/build-bins.$$.log
    echo "BUILD FAILED (repo binaries): no verdict" >&2
    exit 2
  fi
  rm -f /verif/target/build-bins.$$.log
}

needs_bins() {
  case "$1" in C01|C06|C07|C17|C20) return 0;; *) return 1;; esac
}

case "${1:-}" in
  setup)
    build_harness
    build_bins
    exec "$BIN" selftest
    ;;
  C[0-9][0-9])
    id="$1"; mode="${2:-quick}"
    build_harness
    if needs_bins "$id"; then build_bins; fi
    case "$mode" in
      quick|thorough) export VERIF_TIER="$mode"; exec "$BIN" check "$id" "$mode" ;;
      replay) exec "$BIN" replay "$id" "${3:?replay needs a path}" ;;
      *) echo "unknown mode $mode" >&2; exit 2 ;;
    esac
    ;;
  *)
    echo "usage: ./run.sh setup | <ID> quick|thorough | <ID> replay <path>" >&2
    exit 2
    ;;
esac
