use svgdx_verif::engine::Tier;
use svgdx_verif::props::registry;

fn usage() -> ! {
    eprintln!("usage: svgdx-verif check <ID> quick|thorough | replay <ID> <path> | worker <ID> | selftest | list");
    std::process::exit(2)
}

fn main() {
    let args: Vec<String> = std::env::args().collect();
    if args.len() < 2 {
        usage();
    }
    let seed: u64 = std::env::var("VERIF_SEED").ok().and_then(|s| s.trim().parse::<i64>().ok()).map(|v| v as u64).unwrap_or(0);
    let reg = registry();
    let find = |id: &str| {
        reg.iter().find(|p| p.id() == id).unwrap_or_else(|| {
            eprintln!("unknown property {id}");
            std::process::exit(2)
        })
    };
    let code = match args[1].as_str() {
        "list" => {
            for p in &reg {
                println!("{}", p.id());
            }
            0
        }
        "check" if args.len() >= 4 => {
            let tier = match args[3].as_str() {
                "quick" => Tier::Quick,
                "thorough" => Tier::Thorough,
                _ => usage(),
            };
            find(&args[2]).check(tier, seed)
        }
        "replay" if args.len() >= 4 => find(&args[2]).replay(&args[3]),
        "worker" if args.len() >= 3 => find(&args[2]).worker(),
        "fuzz" if args.len() >= 3 => find(&args[2]).fuzz_only(seed),
        "selftest" => svgdx_verif::props::selftest::run(seed),
        _ => usage(),
    };
    std::process::exit(code);
}
