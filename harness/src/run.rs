//! Thin wrappers around the svgdx library API: serialisable config, outcome capture
//! (Ok / Err / panic with location).

use serde::{Deserialize, Serialize};
use std::cell::RefCell;
use std::io::Cursor;
use std::panic::{catch_unwind, AssertUnwindSafe};

#[derive(Clone, Debug, PartialEq, Serialize, Deserialize)]
pub struct Cfg {
    pub debug: bool,
    pub scale: f32,
    pub border: u16,
    pub add_auto_styles: bool,
    pub background: String,
    pub seed: u64,
    pub loop_limit: u32,
    pub var_limit: u32,
    pub depth_limit: u32,
    pub add_metadata: bool,
    pub font_size: f32,
    pub font_family: String,
    pub theme: String,
    pub use_local_styles: bool,
    pub svg_style: Option<String>,
}

impl Default for Cfg {
    fn default() -> Self {
        Cfg {
            debug: false,
            scale: 1.0,
            border: 5,
            add_auto_styles: true,
            background: "default".into(),
            seed: 0,
            loop_limit: 1000,
            var_limit: 1024,
            depth_limit: 100,
            add_metadata: false,
            font_size: 3.0,
            font_family: "sans-serif".into(),
            theme: "default".into(),
            use_local_styles: false,
            svg_style: None,
        }
    }
}

pub const THEMES: [&str; 6] = ["default", "bold", "fine", "glass", "light", "dark"];

impl Cfg {
    pub fn plain() -> Self {
        Cfg { add_auto_styles: false, ..Default::default() }
    }
    pub fn to_svgdx(&self) -> svgdx::TransformConfig {
        let mut c = svgdx::TransformConfig::default();
        c.debug = self.debug;
        c.scale = self.scale;
        c.border = self.border;
        c.add_auto_styles = self.add_auto_styles;
        c.background = self.background.clone();
        c.seed = self.seed;
        c.loop_limit = self.loop_limit;
        c.var_limit = self.var_limit;
        c.depth_limit = self.depth_limit;
        c.add_metadata = self.add_metadata;
        c.font_size = self.font_size;
        c.font_family = self.font_family.clone();
        if let Ok(t) = self.theme.parse() {
            c.theme = t;
        }
        c.use_local_styles = self.use_local_styles;
        c.svg_style = self.svg_style.clone();
        c
    }
    /// Command-line flags of the `svgdx` binary equivalent to this config.
    pub fn cli_args(&self) -> Vec<String> {
        let d = Cfg::default();
        let mut a: Vec<String> = Vec::new();
        if self.debug {
            a.push("--debug".into());
        }
        if self.scale != d.scale {
            a.push("--scale".into());
            a.push(format!("{}", self.scale));
        }
        if self.border != d.border {
            a.push("--border".into());
            a.push(format!("{}", self.border));
        }
        if !self.add_auto_styles {
            a.push("--no-auto-styles".into());
        }
        if self.background != d.background {
            a.push("--background".into());
            a.push(self.background.clone());
        }
        if self.seed != d.seed {
            a.push("--seed".into());
            a.push(format!("{}", self.seed));
        }
        if self.loop_limit != d.loop_limit {
            a.push("--loop-limit".into());
            a.push(format!("{}", self.loop_limit));
        }
        if self.var_limit != d.var_limit {
            a.push("--var-limit".into());
            a.push(format!("{}", self.var_limit));
        }
        if self.depth_limit != d.depth_limit {
            a.push("--depth-limit".into());
            a.push(format!("{}", self.depth_limit));
        }
        if self.add_metadata {
            a.push("--add-metadata".into());
        }
        if self.font_size != d.font_size {
            a.push("--font-size".into());
            a.push(format!("{}", self.font_size));
        }
        if self.font_family != d.font_family {
            a.push("--font-family".into());
            a.push(self.font_family.clone());
        }
        if self.theme != d.theme {
            a.push("--theme".into());
            a.push(self.theme.clone());
        }
        if self.use_local_styles {
            a.push("--use-local-styles".into());
        }
        if let Some(s) = &self.svg_style {
            a.push("--svg-style".into());
            a.push(s.clone());
        }
        a
    }
}

#[derive(Clone, Debug, PartialEq, Serialize, Deserialize)]
pub enum Outcome {
    Ok(String),
    /// error: (variant name taken from the Debug form, Display text)
    Err(String, String),
    /// panic: (file:line, message)
    Panic(String, String),
}

impl Outcome {
    pub fn is_ok(&self) -> bool {
        matches!(self, Outcome::Ok(_))
    }
    pub fn is_err(&self) -> bool {
        matches!(self, Outcome::Err(..))
    }
    pub fn is_panic(&self) -> bool {
        matches!(self, Outcome::Panic(..))
    }
    pub fn ok(&self) -> Option<&str> {
        match self {
            Outcome::Ok(s) => Some(s),
            _ => None,
        }
    }
    pub fn brief(&self) -> String {
        match self {
            Outcome::Ok(s) => format!("Ok({} bytes)", s.len()),
            Outcome::Err(k, m) => format!("Err[{k}] {}", trunc(m, 300)),
            Outcome::Panic(l, m) => format!("PANIC at {l}: {}", trunc(m, 300)),
        }
    }
}

pub fn trunc(s: &str, n: usize) -> String {
    if s.len() <= n {
        s.to_string()
    } else {
        let mut e = n;
        while !s.is_char_boundary(e) {
            e -= 1;
        }
        format!("{}...[{} bytes]", &s[..e], s.len())
    }
}

thread_local! {
    static LAST_PANIC: RefCell<Option<(String, String)>> = const { RefCell::new(None) };
}

pub fn install_panic_hook() {
    std::panic::set_hook(Box::new(|info| {
        let loc = info
            .location()
            .map(|l| format!("{}:{}", l.file(), l.line()))
            .unwrap_or_else(|| "?".into());
        let msg = if let Some(s) = info.payload().downcast_ref::<&str>() {
            s.to_string()
        } else if let Some(s) = info.payload().downcast_ref::<String>() {
            s.clone()
        } else {
            "<non-string panic payload>".to_string()
        };
        LAST_PANIC.with(|p| *p.borrow_mut() = Some((loc, msg)));
    }));
}

pub fn take_last_panic() -> Option<(String, String)> {
    LAST_PANIC.with(|p| p.borrow_mut().take())
}

fn err_kind(dbg: &str) -> String {
    dbg.chars().take_while(|c| c.is_alphanumeric() || *c == '_').collect()
}

/// Is a panic location inside the code under test (as opposed to the harness)?
pub fn is_svgdx_location(loc: &str) -> bool {
    !loc.contains("/verif/")
}

pub fn transform(input: &str, cfg: &Cfg) -> Outcome {
    let c = cfg.to_svgdx();
    let r = catch_unwind(AssertUnwindSafe(|| svgdx::transform_str(input.to_string(), &c)));
    match r {
        Ok(Ok(s)) => Outcome::Ok(s),
        Ok(Err(e)) => Outcome::Err(err_kind(&format!("{e:?}")), e.to_string()),
        Err(_) => {
            let (l, m) = take_last_panic().unwrap_or(("?".into(), "?".into()));
            Outcome::Panic(l, m)
        }
    }
}

#[derive(Clone, Debug, PartialEq)]
pub enum ByteOutcome {
    Ok(Vec<u8>),
    Err(String, String),
    Panic(String, String),
}

pub fn transform_bytes(input: &[u8], cfg: &Cfg) -> ByteOutcome {
    let c = cfg.to_svgdx();
    let r = catch_unwind(AssertUnwindSafe(|| {
        let mut rd = Cursor::new(input.to_vec());
        let mut out: Vec<u8> = Vec::new();
        svgdx::transform_stream(&mut rd, &mut out, &c).map(|_| out)
    }));
    match r {
        Ok(Ok(s)) => ByteOutcome::Ok(s),
        Ok(Err(e)) => ByteOutcome::Err(err_kind(&format!("{e:?}")), e.to_string()),
        Err(_) => {
            let (l, m) = take_last_panic().unwrap_or(("?".into(), "?".into()));
            ByteOutcome::Panic(l, m)
        }
    }
}

/// As `transform_bytes`, and how many bytes had reached the writer when the transform failed.
pub fn transform_bytes_written(input: &[u8], cfg: &Cfg) -> (ByteOutcome, usize) {
    let c = cfg.to_svgdx();
    let mut out: Vec<u8> = Vec::new();
    let r = catch_unwind(AssertUnwindSafe(|| {
        let mut rd = Cursor::new(input.to_vec());
        svgdx::transform_stream(&mut rd, &mut out, &c)
    }));
    match r {
        Ok(Ok(())) => (ByteOutcome::Ok(out), 0),
        Ok(Err(e)) => (ByteOutcome::Err(err_kind(&format!("{e:?}")), e.to_string()), out.len()),
        Err(_) => {
            let (l, m) = take_last_panic().unwrap_or(("?".into(), "?".into()));
            (ByteOutcome::Panic(l, m), out.len())
        }
    }
}

/// Format a number the way an author would write it (shortest form, no exponent).
pub fn num(x: f64) -> String {
    if x == x.trunc() && x.abs() < 1e15 {
        format!("{}", x as i64)
    } else {
        let s = format!("{:.6}", x);
        s.trim_end_matches('0').trim_end_matches('.').to_string()
    }
}
