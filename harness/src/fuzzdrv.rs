//! Engine B driver: runs a wall-clock-bounded libFuzzer campaign (cargo-fuzz target in /verif/fuzz that
//! calls the same oracle in-process) and re-judges every artifact in the sandbox. Only a failure that
//! reproduces in the sandbox (strictly the same path as a generated case) is reported; libFuzzer's own
//! crash / timeout / oom classification is never a verdict.

use crate::engine::{classify, hash_bytes, FuzzSpec, Property, ResKind, VERIF_DIR};
use serde_json::{json, Value};
use std::collections::{BTreeMap, HashSet};
use std::process::Command;
use std::sync::atomic::AtomicUsize;

pub struct FuzzResult {
    pub coverage: Value,
    /// (sig, detail, case json)
    pub failures: Vec<(String, String, Value)>,
    pub broken: Option<String>,
}

/// constructs by which a document explicitly asks for repeated work (C01 only promises time
/// proportional to that work, so a slow / large run of such a document is not a violation)
const AMPLIFIERS: &[&str] = &["<loop", "<for", "reuse", "<use", "repeat", "<var", "<if"];

fn asks_for_work(data: &[u8]) -> bool {
    let s = String::from_utf8_lossy(data);
    AMPLIFIERS.iter().any(|a| s.contains(a))
}

fn run_logged(cmd: &mut Command, log: &str) -> std::io::Result<std::process::ExitStatus> {
    let f = std::fs::File::create(log)?;
    let f2 = f.try_clone()?;
    cmd.stdout(f).stderr(f2).status()
}

pub fn campaign<P: Property>(p: &P, spec: &FuzzSpec<P::Case>, seed: u64, open_sigs: &HashSet<String>, hang_cleared: &AtomicUsize) -> FuzzResult {
    let id = p.id();
    let secs: u64 = std::env::var("VERIF_FUZZ_SECS").ok().and_then(|s| s.parse().ok()).unwrap_or(spec.secs);
    let mut cov = serde_json::Map::new();
    cov.insert("target".into(), json!(spec.target));
    if secs == 0 {
        cov.insert("skipped".into(), json!("VERIF_FUZZ_SECS=0"));
        return FuzzResult { coverage: Value::Object(cov), failures: vec![], broken: None };
    }
    let dir = format!("{VERIF_DIR}/target/fuzz-run/{id}");
    let _ = std::fs::remove_dir_all(&dir);
    let corpus = format!("{dir}/corpus");
    let arts = format!("{dir}/artifacts");
    if std::fs::create_dir_all(&corpus).is_err() || std::fs::create_dir_all(&arts).is_err() {
        return FuzzResult { coverage: Value::Object(cov), failures: vec![], broken: Some(format!("cannot create {dir}")) };
    }
    // starting corpus: repository examples / test inputs, each under two configurations of the table
    let ncfg = crate::fuzzrider::cfg_table().len() as u64;
    let mut n_seed = 0usize;
    for (name, bytes) in crate::gen::corpus_files() {
        if bytes.len() > 8000 {
            continue;
        }
        let h = hash_bytes(format!("{seed}:{name}").as_bytes());
        for k in [0u8, (1 + h % (ncfg - 1)) as u8] {
            let mut v = vec![k];
            v.extend_from_slice(&bytes);
            if std::fs::write(format!("{corpus}/seed-{n_seed:05}"), v).is_ok() {
                n_seed += 1;
            }
        }
    }
    cov.insert("seed_corpus_files".into(), json!(n_seed));
    // build (no sanitizer: svgdx has no unsafe code, and ASan frames would distort the stack-depth behaviour)
    // cargo-fuzz wants to be started inside a cargo project; the fuzz crate is named explicitly
    let fuzz_dir = format!("{VERIF_DIR}/harness");
    let fd = format!("{VERIF_DIR}/fuzz");
    let build_log = format!("{dir}/build.log");
    let st = run_logged(
        Command::new("cargo").current_dir(&fuzz_dir).env("CARGO_NET_OFFLINE", "true").args(["+nightly", "fuzz", "build", "--fuzz-dir", &fd, "-s", "none", spec.target]),
        &build_log,
    );
    match st {
        Ok(s) if s.success() => {}
        other => {
            let tail = std::fs::read_to_string(&build_log).unwrap_or_default();
            return FuzzResult {
                coverage: Value::Object(cov),
                failures: vec![],
                broken: Some(format!("cargo fuzz build failed ({other:?}):\n{}", crate::run::trunc(&tail[tail.len().saturating_sub(3000)..], 3000))),
            };
        }
    }
    let jobs = std::thread::available_parallelism().map(|n| n.get()).unwrap_or(4).saturating_sub(2).max(1);
    let lf_seed = if seed % (u32::MAX as u64) == 0 { 1 } else { seed % (u32::MAX as u64) };
    let run_log = format!("{dir}/run.log");
    let t0 = std::time::Instant::now();
    // hard wall-clock limit on the whole campaign (process group killed): a wedged fuzzing process must not
    // keep the check from finishing
    let st = run_logged(
        Command::new("timeout").current_dir(&fuzz_dir).env("CARGO_NET_OFFLINE", "true").env("VERIF_FUZZ_ARTIFACTS", &arts).args(["-k", "10", &format!("{}", secs + 240), "cargo", "+nightly", "fuzz", "run", "--fuzz-dir", &fd, "-s", "none", spec.target, &corpus, "--"]).args([
            format!("-artifact_prefix={arts}/"),
            format!("-fork={jobs}"),
            "-ignore_crashes=1".into(),
            "-ignore_timeouts=1".into(),
            "-ignore_ooms=1".into(),
            format!("-max_total_time={secs}"),
            "-timeout=300".into(),
            "-rss_limit_mb=4096".into(),
            "-max_len=8192".into(),
            "-len_control=0".into(),
            format!("-seed={lf_seed}"),
        ]),
        &run_log,
    );
    let wall = t0.elapsed().as_secs_f64();
    let log = std::fs::read_to_string(&run_log).unwrap_or_default();
    // fork-mode status lines: "#12345: cov: 5100 ft: 20000 corp: 3000 exec/s 900 oom/timeout/crash: 0/0/0 time: 60s job: 5 dft_time: 0"
    let mut execs = 0u64;
    let mut last_cov = 0u64;
    let mut last_corp = 0u64;
    for line in log.lines() {
        if let Some(rest) = line.strip_prefix('#') {
            if let Some((n, tail)) = rest.split_once(':') {
                if let Ok(n) = n.trim().parse::<u64>() {
                    if tail.contains("cov:") {
                        execs = execs.max(n);
                        let grab = |key: &str| tail.split(key).nth(1).and_then(|t| t.split_whitespace().next()).and_then(|t| t.parse::<u64>().ok());
                        if let Some(c) = grab("cov:") {
                            last_cov = c;
                        }
                        if let Some(c) = grab("corp:") {
                            last_corp = c;
                        }
                    }
                }
            }
        }
    }
    cov.insert("campaign_wall_s".into(), json!(wall));
    cov.insert("budget_s".into(), json!(secs));
    cov.insert("fork_jobs".into(), json!(jobs));
    cov.insert("executions".into(), json!(execs));
    cov.insert("edge_coverage".into(), json!(last_cov));
    cov.insert("corpus_units".into(), json!(last_corp));
    cov.insert("libfuzzer_exit".into(), json!(st.as_ref().ok().and_then(|s| s.code())));
    if execs == 0 {
        let tail = &log[log.len().saturating_sub(2000)..];
        return FuzzResult { coverage: Value::Object(cov), failures: vec![], broken: Some(format!("libFuzzer campaign executed nothing:\n{tail}")) };
    }

    // re-judge artifacts in the sandbox
    let mut w = crate::engine::Worker::spawn(id);
    let mut names: Vec<String> = std::fs::read_dir(&arts).map(|d| d.filter_map(|e| e.ok()).map(|e| e.file_name().to_string_lossy().to_string()).collect()).unwrap_or_default();
    names.sort();
    let mut kinds: BTreeMap<String, usize> = BTreeMap::new();
    let mut outcome: BTreeMap<String, usize> = BTreeMap::new();
    let mut failures: Vec<(String, String, Value)> = Vec::new();
    let mut seen_sigs: HashSet<String> = HashSet::new();
    let mut judged = 0usize;
    for name in &names {
        let kind = name.split('-').next().unwrap_or("").to_string();
        *kinds.entry(kind.clone()).or_default() += 1;
        if !matches!(kind.as_str(), "crash" | "timeout" | "oom") {
            continue;
        }
        if judged >= 300 {
            *outcome.entry("not-rejudged(cap 300)".into()).or_default() += 1;
            continue;
        }
        let Ok(data) = std::fs::read(format!("{arts}/{name}")) else { continue };
        let Some(case) = (spec.decode)(&data) else {
            *outcome.entry("outside-domain".into()).or_default() += 1;
            continue;
        };
        judged += 1;
        let cj = serde_json::to_value(&case).unwrap();
        let (k, _) = classify(p, &mut w, &cj, false, open_sigs, hang_cleared);
        match k {
            ResKind::Fail { sig, detail } => {
                // (an input abandoned by the in-target time limit is stored by libFuzzer as a crash- file as well)
                if (sig.starts_with("hang") || (kind != "crash" && sig.starts_with("crash:"))) && asks_for_work(&data) {
                    // slow / large, but the document asks for repeated work: not decidable here
                    *outcome.entry("heavy-document-with-explicit-work(not judged)".into()).or_default() += 1;
                    continue;
                }
                *outcome.entry("reproduced".into()).or_default() += 1;
                if !seen_sigs.insert(sig.clone()) || failures.len() >= 3 {
                    continue;
                }
                // byte-level delta debugging, keeping the signature
                let (small, steps) = ddmin(p, spec, &mut w, &data, &sig, open_sigs, hang_cleared);
                let small_case = (spec.decode)(&small).map(|c| serde_json::to_value(&c).unwrap()).unwrap_or(cj.clone());
                let detail = format!("[libFuzzer artifact {name}, {} -> {} bytes in {steps} ddmin steps] {detail}", data.len(), small.len());
                failures.push((sig, detail, small_case));
            }
            ResKind::Known(s) => *outcome.entry(format!("known:{s}")).or_default() += 1,
            ResKind::Broken(m) => {
                return FuzzResult { coverage: Value::Object(cov), failures, broken: Some(format!("sandbox broken while re-judging {name}: {m}")) };
            }
            ResKind::Pass => *outcome.entry("not-reproduced(pass)".into()).or_default() += 1,
            ResKind::Skip(s) => *outcome.entry(format!("not-reproduced(skip:{})", s.split(':').next().unwrap_or(""))).or_default() += 1,
        }
    }
    cov.insert("artifacts".into(), json!(kinds));
    cov.insert("artifacts_rejudged".into(), json!(outcome));
    // keep the directory small: the corpus is re-creatable, artifacts are kept only if something failed
    let _ = std::fs::remove_dir_all(&corpus);
    if failures.is_empty() {
        let _ = std::fs::remove_dir_all(&arts);
    }
    FuzzResult { coverage: Value::Object(cov), failures, broken: None }
}

fn ddmin<P: Property>(p: &P, spec: &FuzzSpec<P::Case>, w: &mut crate::engine::Worker, data: &[u8], sig: &str, open_sigs: &HashSet<String>, hang_cleared: &AtomicUsize) -> (Vec<u8>, usize) {
    if data.len() < 2 {
        return (data.to_vec(), 0);
    }
    let head = data[0];
    let mut cur: Vec<u8> = data[1..].to_vec();
    let mut steps = 0usize;
    let mut fails = |cand: &[u8], steps: &mut usize| -> bool {
        *steps += 1;
        let mut v = vec![head];
        v.extend_from_slice(cand);
        let Some(case) = (spec.decode)(&v) else { return false };
        let cj = serde_json::to_value(&case).unwrap();
        matches!(classify(p, w, &cj, false, open_sigs, hang_cleared).0, ResKind::Fail { sig: s, .. } if s == sig)
    };
    let mut chunk = (cur.len() / 2).max(1);
    while chunk >= 1 && steps < 600 {
        let mut i = 0;
        let mut progressed = false;
        while i < cur.len() && steps < 600 {
            let end = (i + chunk).min(cur.len());
            let mut cand = cur[..i].to_vec();
            cand.extend_from_slice(&cur[end..]);
            if fails(&cand, &mut steps) {
                cur = cand;
                progressed = true;
            } else {
                i = end;
            }
        }
        if chunk == 1 && !progressed {
            break;
        }
        if !progressed || chunk > cur.len() {
            chunk /= 2;
        }
        if chunk == 0 {
            break;
        }
    }
    let mut v = vec![head];
    v.extend_from_slice(&cur);
    (v, steps)
}
