//! Engine B glue shared by the libFuzzer targets (/verif/fuzz) and the parent that re-judges their
//! artifacts: the byte format of a fuzz input and the in-target oracle call.
//!
//! input = one selector byte (index into a fixed table of configurations) followed by the document.

use crate::run::Cfg;
use proptest::strategy::{Strategy, ValueTree};
use std::collections::HashSet;
use std::sync::OnceLock;

/// 24 configurations, drawn once from the harness's own config strategies with a fixed RNG:
/// entry 0 is the default; then benign, hostile-string and small-limit ones (all limits <= defaults).
pub fn cfg_table() -> &'static Vec<Cfg> {
    static T: OnceLock<Vec<Cfg>> = OnceLock::new();
    T.get_or_init(|| {
        let mut v = vec![Cfg::default()];
        let mut runner = crate::engine::runner_for(0x5eed, "fuzz", "cfg-table", 0);
        for i in 0..23 {
            let c = match i % 3 {
                0 => crate::gen::cfg_small_limits().new_tree(&mut runner).unwrap().current(),
                1 => crate::gen::cfg_benign().new_tree(&mut runner).unwrap().current(),
                _ => crate::gen::cfg_hostile().new_tree(&mut runner).unwrap().current(),
            };
            v.push(c);
        }
        v
    })
}

pub fn split(data: &[u8]) -> Option<(usize, &[u8])> {
    let (k, doc) = data.split_first()?;
    Some((*k as usize % cfg_table().len(), doc))
}

pub fn second_cfg(k: usize) -> usize {
    (k * 7 + 3) % cfg_table().len()
}

fn open_sigs(id: &str) -> &'static HashSet<String> {
    static S: OnceLock<HashSet<String>> = OnceLock::new();
    S.get_or_init(|| crate::engine::load_findings().findings.iter().filter(|f| f.property == id && f.status == "open").map(|f| f.sig.clone()).collect())
}

/// Body of every libFuzzer target: decode, judge with the property's own oracle, abort on a failure
/// that is not a listed open finding (so that libFuzzer stores the input as an artifact).
pub fn in_target(id: &'static str, data: &[u8]) {
    static HOOK: std::sync::Once = std::sync::Once::new();
    // replace libfuzzer-sys's aborting panic hook: panics of the code under test are caught and
    // judged by the oracle (a violation for C01, outside the property for the others)
    HOOK.call_once(crate::run::install_panic_hook);
    static REG: OnceLock<Vec<Box<dyn crate::engine::DynProperty>>> = OnceLock::new();
    let reg = REG.get_or_init(crate::props::registry);
    let Some(p) = reg.iter().find(|p| p.id() == id) else { return };
    let Some(v) = p.fuzz_one(data) else { return };
    if v.status == crate::engine::Status::Fail && !open_sigs(id).contains(&v.sig) {
        eprintln!("VERIF-ORACLE property={id} [{}] {}", v.sig, crate::run::trunc(&v.detail, 1500));
        std::process::abort();
    }
}
