//! Engine B glue shared by the libFuzzer targets (/verif/fuzz) and the parent that re-judges their
//! artifacts: the byte format of a fuzz input and the in-target oracle call.
//!
//! input = one selector byte (index into a fixed table of configurations) followed by the document.

use crate::run::Cfg;
use proptest::strategy::{Strategy, ValueTree};
use std::collections::HashSet;
use std::sync::OnceLock;

/// 24 configurations, drawn once from the harness's own config strategies with a fixed RNG:
/// entry 0 is the default; then benign, hostile-string and small-limit ones (all limits <= defaults).
pub fn cfg_table() -> &'static Vec<Cfg> {
    static T: OnceLock<Vec<Cfg>> = OnceLock::new();
    T.get_or_init(|| {
        let mut v = vec![Cfg::default()];
        let mut runner = crate::engine::runner_for(0x5eed, "fuzz", "cfg-table", 0);
        for i in 0..23 {
            let c = match i % 3 {
                0 => crate::gen::cfg_small_limits().new_tree(&mut runner).unwrap().current(),
                1 => crate::gen::cfg_benign().new_tree(&mut runner).unwrap().current(),
                _ => crate::gen::cfg_hostile().new_tree(&mut runner).unwrap().current(),
            };
            v.push(c);
        }
        v
    })
}

pub fn split(data: &[u8]) -> Option<(usize, &[u8])> {
    let (k, doc) = data.split_first()?;
    Some((*k as usize % cfg_table().len(), doc))
}

pub fn second_cfg(k: usize) -> usize {
    (k * 7 + 3) % cfg_table().len()
}

fn open_sigs(id: &str) -> &'static HashSet<String> {
    static S: OnceLock<HashSet<String>> = OnceLock::new();
    S.get_or_init(|| crate::engine::load_findings().findings.iter().filter(|f| f.property == id && f.status == "open").map(|f| f.sig.clone()).collect())
}

/// Body of every libFuzzer target: decode, judge with the property's own oracle, abort on a failure
/// that is not a listed open finding (so that libFuzzer stores the input as an artifact).
pub fn in_target(id: &'static str, data: &[u8]) {
    static HOOK: std::sync::Once = std::sync::Once::new();
    // replace libfuzzer-sys's aborting panic hook: panics of the code under test are caught and
    // judged by the oracle (a violation for C01, outside the property for the others)
    HOOK.call_once(crate::run::install_panic_hook);
    static REG: OnceLock<Vec<Box<dyn crate::engine::DynProperty>>> = OnceLock::new();
    let reg = REG.get_or_init(crate::props::registry);
    let Some(p) = reg.iter().find(|p| p.id() == id) else { return };
    // The case runs on its own thread with the sandbox's stack size, and this thread waits for it with a
    // time limit of its own: libFuzzer's alarm-based timeout handler is not async-signal-safe (it was seen to
    // deadlock a fork-mode child for good), so slow inputs are stored and abandoned from here instead.
    let owned: Vec<u8> = data.to_vec();
    let (tx, rx) = std::sync::mpsc::channel();
    let spawned = std::thread::Builder::new().stack_size(2 << 20).spawn(move || {
        let _ = tx.send(p.fuzz_one(&owned));
    });
    if spawned.is_err() {
        return;
    }
    let limit = std::time::Duration::from_secs(std::env::var("VERIF_FUZZ_UNIT_SECS").ok().and_then(|s| s.parse().ok()).unwrap_or(10));
    match rx.recv_timeout(limit) {
        Ok(Some(v)) => {
            if v.status == crate::engine::Status::Fail && !open_sigs(id).contains(&v.sig) {
                eprintln!("VERIF-ORACLE property={id} [{}] {}", v.sig, crate::run::trunc(&v.detail, 1500));
                std::process::abort();
            }
        }
        Ok(None) => {}
        Err(std::sync::mpsc::RecvTimeoutError::Timeout) => {
            if let Ok(dir) = std::env::var("VERIF_FUZZ_ARTIFACTS") {
                let _ = std::fs::write(format!("{dir}/timeout-{:016x}", crate::engine::hash_bytes(data)), data);
            }
            eprintln!("VERIF-SLOW property={id}: input of {} bytes still running after {limit:?}; stored, leaving this process", data.len());
            // the worker thread cannot be stopped: end the process (fork mode starts a new one)
            std::process::abort();
        }
        // the case thread died without an answer (a panic inside the harness): libFuzzer will have seen it
        Err(std::sync::mpsc::RecvTimeoutError::Disconnected) => {}
    }
}
