//! Shared proptest strategies: numbers, strings, configs, an XML builder and the
//! structured svgdx document generator (DocGen).
//!
//! Pattern used throughout: a strategy draws a vector of plain "picks" (small
//! integers, grid numbers, short strings); a pure interpreter turns the picks into a
//! document. Shrinking therefore shrinks the picks, and every random choice stays
//! inside proptest.

use crate::run::{num, Cfg, THEMES};
use crate::sxml::{escape_attr, escape_text};
use proptest::collection::vec;
use proptest::prelude::*;
use serde::{Deserialize, Serialize};

// ---------------------------------------------------------------------------
// numbers

/// coordinate on a 1/8 grid in [-lim, lim]
pub fn grid(lim: i32) -> impl Strategy<Value = f64> {
    (-lim * 8..=lim * 8).prop_map(|v| v as f64 / 8.0)
}

/// positive size on a 1/8 grid in (0, lim]
pub fn size(lim: i32) -> impl Strategy<Value = f64> {
    (1..=lim * 8).prop_map(|v| v as f64 / 8.0)
}

/// mostly small integers, sometimes fractional
pub fn nice(lim: i32) -> impl Strategy<Value = f64> {
    prop_oneof![
        3 => (-lim..=lim).prop_map(|v| v as f64),
        2 => grid(lim),
    ]
}

pub fn nice_pos(lim: i32) -> impl Strategy<Value = f64> {
    prop_oneof![
        3 => (1..=lim).prop_map(|v| v as f64),
        2 => size(lim),
    ]
}

// ---------------------------------------------------------------------------
// strings

pub const HOSTILE_TOKENS: &[&str] = &[
    "&", "<", ">", "\"", "'", "-", "--", "]]>", "?>", "<!--", "-->", "{{", "}}", "$", "#", "^", "@",
    "|", "~", "\\", "\\n", "&amp;", "&lt;", "&#65;", "&bogus;", "&quot;", "<x>", "</x>", "<![CDATA[",
    " ", "  ", ";", ":", "%", "(", ")", ",", "a", "b", "Z", "0", "7", "é", "ß", "日本", "\u{1F600}",
    "\u{0301}", "\u{200B}", "\u{A0}", "=", "/", "*", "+", "url(#a)", "$x", "${x}", "{{1+1}}",
];

/// Strings over the hostile alphabet; all characters are XML `Char`s; no TAB/CR/LF.
pub fn hostile(max_tokens: usize) -> impl Strategy<Value = String> {
    vec(
        prop_oneof![
            6 => (0..HOSTILE_TOKENS.len()).prop_map(|i| HOSTILE_TOKENS[i].to_string()),
            2 => "[a-zA-Z0-9 ]{1,6}",
            1 => any::<char>().prop_filter_map("xml char", |c| {
                if crate::sxml::is_xml_char(c) && !matches!(c, '\t' | '\n' | '\r') { Some(c.to_string()) } else { None }
            }),
        ],
        0..=max_tokens,
    )
    .prop_map(|v| v.concat())
}

/// Hostile string that cannot trigger svgdx's own `$var` / `{{expr}}` / `\n` processing, so the
/// value must travel verbatim.
pub fn hostile_inert(max_tokens: usize) -> impl Strategy<Value = String> {
    hostile(max_tokens).prop_map(|s| {
        s.replace('$', "S").replace("{{", "{ {").replace("}}", "} }").replace('\\', "/")
    })
}

pub fn benign_word() -> impl Strategy<Value = String> {
    "[a-zA-Z][a-zA-Z0-9]{0,7}"
}

pub fn benign_text() -> impl Strategy<Value = String> {
    "[a-zA-Z0-9][a-zA-Z0-9 .,:;!?()+*=/-]{0,20}"
}

// ---------------------------------------------------------------------------
// configs

pub fn theme() -> impl Strategy<Value = String> {
    (0..THEMES.len()).prop_map(|i| THEMES[i].to_string())
}

/// Benign configurations (limits at or below defaults, no local styles).
pub fn cfg_benign() -> impl Strategy<Value = Cfg> {
    (
        any::<bool>(),
        prop_oneof![Just(1.0f32), Just(0.5), Just(1.5), Just(2.5), Just(10.0)],
        prop_oneof![Just(5u16), 0u16..40],
        prop::bool::weighted(0.7),
        prop_oneof![3 => Just("default".to_string()), 1 => Just("none".to_string()), 1 => Just("lightgrey".to_string()), 1 => Just("#fed".to_string())],
        prop_oneof![Just(0u64), any::<u64>()],
        any::<bool>(),
        prop_oneof![Just(3.0f32), Just(5.0), Just(2.5)],
        prop_oneof![3 => Just("sans-serif".to_string()), 1 => Just("Ubuntu Mono".to_string()), 1 => Just("serif".to_string())],
        theme(),
        prop_oneof![3 => Just(None), 1 => Just(Some("max-width: 100%; height: auto;".to_string()))],
    )
        .prop_map(|(debug, scale, border, auto, bg, seed, meta, fs, ff, theme, ss)| Cfg {
            debug,
            scale,
            border,
            add_auto_styles: auto,
            background: bg,
            seed,
            add_metadata: meta,
            font_size: fs,
            font_family: ff,
            theme,
            svg_style: ss,
            ..Cfg::default()
        })
}

/// Configurations whose free-string settings carry hostile content.
pub fn cfg_hostile() -> impl Strategy<Value = Cfg> {
    (cfg_benign(), hostile(4), hostile(4), prop::option::of(hostile(4)), 0..8u8).prop_map(
        |(mut c, bg, ff, ss, which)| {
            if which & 1 != 0 {
                c.background = bg;
            }
            if which & 2 != 0 {
                c.font_family = ff;
            }
            if which & 4 != 0 {
                c.svg_style = ss;
            }
            c
        },
    )
}

/// Configurations with small limits (all <= defaults).
pub fn cfg_small_limits() -> impl Strategy<Value = Cfg> {
    (cfg_benign(), 0u32..=20, prop_oneof![Just(1024u32), 0u32..64], prop_oneof![Just(100u32), 0u32..12]).prop_map(
        |(mut c, ll, vl, dl)| {
            c.loop_limit = ll;
            c.var_limit = vl;
            c.depth_limit = dl;
            c
        },
    )
}

// ---------------------------------------------------------------------------
// XML builder

#[derive(Clone, Debug, PartialEq, Serialize, Deserialize)]
pub enum X {
    El(XEl),
    /// character data (escaped on output)
    Text(String),
    /// raw markup, emitted verbatim
    Raw(String),
}

#[derive(Clone, Debug, PartialEq, Serialize, Deserialize, Default)]
pub struct XEl {
    pub name: String,
    pub attrs: Vec<(String, String)>,
    pub kids: Vec<X>,
}

impl XEl {
    pub fn new(name: &str) -> Self {
        XEl { name: name.to_string(), attrs: vec![], kids: vec![] }
    }
    pub fn a(mut self, k: &str, v: impl Into<String>) -> Self {
        self.set(k, v);
        self
    }
    pub fn set(&mut self, k: &str, v: impl Into<String>) {
        let v = v.into();
        if let Some(e) = self.attrs.iter_mut().find(|(n, _)| n == k) {
            e.1 = v;
        } else {
            self.attrs.push((k.to_string(), v));
        }
    }
    pub fn get(&self, k: &str) -> Option<&str> {
        self.attrs.iter().find(|(n, _)| n == k).map(|(_, v)| v.as_str())
    }
    pub fn kid(mut self, k: XEl) -> Self {
        self.kids.push(X::El(k));
        self
    }
    pub fn text(mut self, t: impl Into<String>) -> Self {
        self.kids.push(X::Text(t.into()));
        self
    }
    pub fn add_class(&mut self, c: &str) {
        let cur = self.get("class").map(|s| s.to_string()).unwrap_or_default();
        if cur.is_empty() {
            self.set("class", c);
        } else {
            self.set("class", format!("{cur} {c}"));
        }
    }
    pub fn write(&self, out: &mut String, indent: usize, pretty: bool) {
        let pad = if pretty { "  ".repeat(indent) } else { String::new() };
        out.push_str(&pad);
        out.push('<');
        out.push_str(&self.name);
        for (k, v) in &self.attrs {
            out.push(' ');
            out.push_str(k);
            out.push_str("=\"");
            out.push_str(&escape_attr(v));
            out.push('"');
        }
        if self.kids.is_empty() {
            out.push_str("/>");
        } else {
            out.push('>');
            let only_text = self.kids.iter().all(|k| !matches!(k, X::El(_)));
            if pretty && !only_text {
                out.push('\n');
            }
            for k in &self.kids {
                match k {
                    X::El(e) => {
                        e.write(out, indent + 1, pretty && !only_text);
                        if pretty && !only_text {
                            out.push('\n');
                        }
                    }
                    X::Text(t) => out.push_str(&escape_text(t)),
                    X::Raw(r) => out.push_str(r),
                }
            }
            if pretty && !only_text {
                out.push_str(&pad);
            }
            out.push_str("</");
            out.push_str(&self.name);
            out.push('>');
        }
    }
    pub fn to_xml(&self) -> String {
        let mut s = String::new();
        self.write(&mut s, 0, true);
        s
    }
    pub fn to_xml_compact(&self) -> String {
        let mut s = String::new();
        self.write(&mut s, 0, false);
        s
    }
}

pub fn svg_root(kids: Vec<XEl>) -> XEl {
    XEl { name: "svg".into(), attrs: vec![], kids: kids.into_iter().map(X::El).collect() }
}

// ---------------------------------------------------------------------------
// DocGen: structured svgdx documents

pub const LOCS: [&str; 9] = ["tl", "t", "tr", "r", "br", "b", "bl", "l", "c"];
pub const EDGES: [&str; 4] = ["t", "r", "b", "l"];
pub const DIRS: [&str; 4] = ["h", "H", "v", "V"];

pub const STYLE_CLASSES: &[&str] = &[
    "d-red", "d-fill-deeppink", "d-text-darkblue", "d-fill-none", "d-none", "d-fill-black", "d-text-ol-white",
    "d-text-small", "d-text-largest", "d-text-bold", "d-text-italic", "d-text-monospace", "d-text-pre",
    "d-dot", "d-dash", "d-thin", "d-thicker", "d-arrow", "d-flow", "d-flow-fast", "d-flow-rev", "d-biarrow",
    "d-softshadow", "d-hardshadow", "d-grid", "d-grid-5", "d-grid-10", "d-stipple", "d-hatch-3", "d-hatch-7",
    "d-crosshatch-4", "d-text-outside", "d-text-inside", "d-text-vertical", "d-surround", "my-class", "thing",
    "d-text-top", "d-text-bottom", "d-text-left", "d-text-right", "d-stipple-2", "d-grid-2", "d-crosshatch",
];

#[derive(Clone, Debug, Serialize, Deserialize)]
pub struct Pick {
    pub kind: u8,
    pub n: [f64; 6],
    pub r: [u8; 3],
    pub f: u16,
    pub s: String,
}

pub fn pick(text: BoxedStrategy<String>) -> impl Strategy<Value = Pick> {
    (
        0u8..40,
        [nice(60).boxed(), nice(60).boxed(), nice_pos(40).boxed(), nice_pos(40).boxed(), nice(12).boxed(), nice(12).boxed()],
        [any::<u8>(), any::<u8>(), any::<u8>()],
        any::<u16>(),
        text,
    )
        .prop_map(|(kind, n, r, f, s)| Pick { kind, n, r, f, s })
}

#[derive(Clone, Debug, Default)]
pub struct DocOpts {
    /// allow forward / unknown references
    pub wild_refs: bool,
    /// use expressions and variables for some numbers
    pub exprs: bool,
    /// include random functions
    pub random_fns: bool,
    /// include text attributes / content
    pub texts: bool,
    /// include style classes
    pub classes: bool,
    /// include loops / ifs / reuse / groups
    pub control: bool,
    /// wrap in a root <svg>
    pub root: bool,
    /// include `_` comments
    pub comments: bool,
}

impl DocOpts {
    pub fn all() -> Self {
        DocOpts { wild_refs: false, exprs: true, random_fns: false, texts: true, classes: true, control: true, root: true, comments: true }
    }
}

fn idx(i: u8, len: usize) -> usize {
    // monotone index mapping (keeps shrinking effective)
    (i as usize * len) >> 8
}

struct Ctx {
    n_ids: usize,
    vars: Vec<String>,
    opts: DocOpts,
    templates: Vec<String>,
}

impl Ctx {
    fn elref(&self, r: u8, allow_prev: bool) -> Option<String> {
        if self.n_ids == 0 {
            return None;
        }
        if allow_prev && r % 5 == 0 {
            return Some("^".to_string());
        }
        if self.opts.wild_refs && r % 7 == 0 {
            return Some(format!("#e{}", self.n_ids + (r as usize % 3)));
        }
        Some(format!("#e{}", idx(r, self.n_ids)))
    }
    fn numstr(&self, v: f64, f: u16) -> String {
        if self.opts.exprs {
            match f % 9 {
                0 => return format!("{{{{{} + {}}}}}", num(v - 1.0), 1),
                1 => return format!("{{{{{} * 2}}}}", num(v / 2.0)),
                2 if !self.vars.is_empty() => {
                    // variable holds a number; use it additively so that the value stays known-ish
                    let var = &self.vars[(f as usize / 9) % self.vars.len()];
                    return format!("{{{{{} + ${} - ${}}}}}", num(v), var, var);
                }
                3 if self.opts.random_fns => return format!("{{{{{} + randint(0, 3)}}}}", num(v)),
                4 if self.opts.random_fns => return format!("{{{{{} + random()}}}}", num(v)),
                _ => {}
            }
        }
        num(v)
    }
}

fn pos_attrs(e: &mut XEl, p: &Pick, c: &Ctx, prefer_c: bool) {
    let f = p.f;
    match (f >> 2) % 8 {
        0 | 1 => e.set("xy", format!("{} {}", c.numstr(p.n[0], f), c.numstr(p.n[1], f >> 3))),
        2 => {
            e.set(if prefer_c { "cx" } else { "x" }, c.numstr(p.n[0], f));
            e.set(if prefer_c { "cy" } else { "y" }, c.numstr(p.n[1], f >> 3));
        }
        3 => e.set("cxy", format!("{} {}", num(p.n[0]), num(p.n[1]))),
        4 | 5 => {
            if let Some(r) = c.elref(p.r[0], true) {
                let d = DIRS[(f >> 5) as usize % 4];
                if (f >> 7) % 2 == 0 {
                    e.set("xy", format!("{r}|{d} {}", num(p.n[4])));
                } else {
                    e.set("xy", format!("{r}|{d}"));
                }
            } else {
                e.set("xy", format!("{} {}", num(p.n[0]), num(p.n[1])));
            }
        }
        6 => {
            if let Some(r) = c.elref(p.r[0], true) {
                let l = LOCS[(f >> 5) as usize % 9];
                match (f >> 9) % 3 {
                    0 => e.set("xy", format!("{r}@{l}")),
                    1 => e.set("xy", format!("{r}@{l} {} {}", num(p.n[4]), num(p.n[5]))),
                    _ => {
                        e.set("cxy", format!("{r}@{l}"));
                    }
                }
                if (f >> 11) % 4 == 0 {
                    e.set("xy-loc", LOCS[(f >> 12) as usize % 9]);
                }
            } else {
                e.set("cxy", format!("{} {}", num(p.n[0]), num(p.n[1])));
            }
        }
        _ => {
            if let Some(r) = c.elref(p.r[0], false) {
                let ed = EDGES[(f >> 5) as usize % 4];
                let off = match (f >> 8) % 3 {
                    0 => format!("{}%", (p.n[4] * 10.0).round()),
                    1 => num(p.n[4]),
                    _ => num(-p.n[2]),
                };
                e.set("xy", format!("{r}@{ed}:{off}"));
            }
        }
    }
    if (f >> 13) % 5 == 0 {
        e.set("dxy", format!("{} {}", num(p.n[4]), num(p.n[5])));
    }
}

fn size_attrs(e: &mut XEl, p: &Pick, c: &Ctx) {
    let f = p.f;
    match f % 7 {
        0 | 1 => e.set("wh", format!("{} {}", c.numstr(p.n[2], f >> 4), num(p.n[3]))),
        2 => e.set("wh", num(p.n[2])),
        3 => {
            e.set("width", num(p.n[2]));
            e.set("height", num(p.n[3]));
        }
        4 => {
            if let Some(r) = c.elref(p.r[1], true) {
                match (f >> 6) % 3 {
                    0 => e.set("wh", r),
                    1 => e.set("wh", format!("{r} 50%")),
                    _ => e.set("wh", format!("{r} {} {}", num(p.n[4]), num(p.n[5]))),
                }
            } else {
                e.set("wh", num(p.n[2]));
            }
        }
        5 => {
            e.set("wh", format!("{} {}", num(p.n[2]), num(p.n[3])));
            e.set("dw", num(p.n[4]));
        }
        _ => {
            e.set("wh", format!("{} {}", num(p.n[2]), num(p.n[3])));
            e.set("dwh", "50%");
        }
    }
}

fn deco(e: &mut XEl, p: &Pick, c: &Ctx, id: Option<usize>) {
    if let Some(i) = id {
        e.attrs.insert(0, ("id".into(), format!("e{i}")));
    }
    if c.opts.classes {
        let k = (p.r[2] % 4) as usize;
        for j in 0..k.min(3) {
            let ci = (p.r[2] as usize * 7 + p.f as usize + j * 13) % STYLE_CLASSES.len();
            e.add_class(STYLE_CLASSES[ci]);
        }
    }
    if c.opts.classes && c.opts.exprs && p.r[1] % 23 == 0 {
        e.add_class("$cvb $cva");
    }
    if c.opts.texts && p.f % 3 == 0 && !p.s.is_empty() {
        e.set("text", p.s.clone());
        if p.f % 2 == 0 {
            e.set("text-loc", LOCS[(p.f >> 4) as usize % 9]);
        }
    }
    if c.opts.comments && p.f % 11 == 0 {
        e.set("_", format!("note {}", p.s));
    }
    if p.f % 13 == 0 {
        e.set("style", "stroke-width: 2; fill: none");
    }
    if p.f % 17 == 0 {
        e.set("data-x", p.s.clone());
    }
}

/// Interpret picks into a list of elements (a document body).
fn build(picks: &[Pick], c: &mut Ctx, depth: usize) -> Vec<XEl> {
    let mut out: Vec<XEl> = Vec::new();
    let mut i = 0usize;
    while i < picks.len() {
        let p = &picks[i];
        i += 1;
        let kind = if c.opts.control { p.kind % 40 } else { p.kind % 22 };
        match kind {
            0..=5 => {
                let mut e = XEl::new("rect");
                pos_attrs(&mut e, p, c, false);
                size_attrs(&mut e, p, c);
                let id = c.n_ids;
                deco(&mut e, p, c, Some(id));
                c.n_ids += 1;
                out.push(e);
            }
            6 | 7 => {
                let mut e = XEl::new("circle");
                pos_attrs(&mut e, p, c, true);
                match p.f % 3 {
                    0 => e.set("r", num(p.n[2])),
                    1 => e.set("wh", num(p.n[2])),
                    _ => e.set("r", c.numstr(p.n[2], p.f >> 3)),
                }
                let id = c.n_ids;
                deco(&mut e, p, c, Some(id));
                c.n_ids += 1;
                out.push(e);
            }
            8 => {
                let mut e = XEl::new("ellipse");
                pos_attrs(&mut e, p, c, true);
                if p.f % 2 == 0 {
                    e.set("rx", num(p.n[2]));
                    e.set("ry", num(p.n[3]));
                } else {
                    e.set("rxy", format!("{} {}", num(p.n[2]), num(p.n[3])));
                }
                let id = c.n_ids;
                deco(&mut e, p, c, Some(id));
                c.n_ids += 1;
                out.push(e);
            }
            9 | 10 => {
                let mut e = XEl::new("line");
                match p.f % 4 {
                    0 => {
                        e.set("xy1", format!("{} {}", num(p.n[0]), num(p.n[1])));
                        e.set("xy2", format!("{} {}", num(p.n[0] + p.n[4]), num(p.n[1] + p.n[5])));
                    }
                    1 => {
                        e.set("x1", num(p.n[0]));
                        e.set("y1", num(p.n[1]));
                        e.set("x2", num(p.n[2]));
                        e.set("y2", num(p.n[3]));
                    }
                    2 => {
                        e.set("xy1", format!("{} {}", num(p.n[0]), num(p.n[1])));
                        e.set("width", num(p.n[2]));
                    }
                    _ => {
                        if let (Some(a), Some(b)) = (c.elref(p.r[0], false), c.elref(p.r[1], false)) {
                            e.set("start", a);
                            e.set("end", b);
                            if p.f % 8 == 3 {
                                e.set("edge-type", if p.f % 16 == 3 { "h" } else { "v" });
                            }
                        } else {
                            e.set("xy1", "0");
                            e.set("xy2", "5 8");
                        }
                    }
                }
                let id = c.n_ids;
                deco(&mut e, p, c, Some(id));
                c.n_ids += 1;
                out.push(e);
            }
            11 => {
                let mut e = XEl::new("polyline");
                if let (true, Some(a), Some(b)) = (p.f % 2 == 0, c.elref(p.r[0], false), c.elref(p.r[1], false)) {
                    e.set("start", format!("{a}@{}", EDGES[(p.f >> 2) as usize % 4]));
                    e.set("end", format!("{b}@{}", EDGES[(p.f >> 4) as usize % 4]));
                    if p.f % 3 == 0 {
                        e.set("corner-offset", if p.f % 6 == 0 { "30%".to_string() } else { num(p.n[2]) });
                    }
                } else {
                    e.set(
                        "points",
                        format!("{} {} {} {} {} {}", num(p.n[0]), num(p.n[1]), num(p.n[2]), num(p.n[3]), num(p.n[4]), num(p.n[5])),
                    );
                }
                let id = c.n_ids;
                deco(&mut e, p, c, Some(id));
                c.n_ids += 1;
                out.push(e);
            }
            12 => {
                let mut e = XEl::new("polygon");
                e.set(
                    "points",
                    format!("{},{} {},{} {},{}", num(p.n[0]), num(p.n[1]), num(p.n[2]), num(p.n[3]), num(p.n[4]), num(p.n[5])),
                );
                let id = c.n_ids;
                deco(&mut e, p, c, Some(id));
                c.n_ids += 1;
                out.push(e);
            }
            13 => {
                let mut e = XEl::new("path");
                let d = match p.f % 4 {
                    0 => format!("M{} {} L{} {} l{} {} z", num(p.n[0]), num(p.n[1]), num(p.n[2]), num(p.n[3]), num(p.n[4]), num(p.n[5])),
                    1 => format!("M {} {} h {} v {} H {} Z", num(p.n[0]), num(p.n[1]), num(p.n[2]), num(p.n[3]), num(p.n[4])),
                    2 => format!("M {} {} b 30 {} b -45 {} l 3 4", num(p.n[0]), num(p.n[1]), num(p.n[2]), num(p.n[3])),
                    _ => format!("M{} {} c 1 2 3 4 {} {} q 1 1 {} {} a 3 3 0 0 1 5 5", num(p.n[0]), num(p.n[1]), num(p.n[2]), num(p.n[3]), num(p.n[4]), num(p.n[5])),
                };
                e.set("d", d);
                let id = c.n_ids;
                deco(&mut e, p, c, Some(id));
                c.n_ids += 1;
                out.push(e);
            }
            14 | 15 => {
                let mut e = XEl::new("text");
                pos_attrs(&mut e, p, c, false);
                if p.f % 2 == 0 {
                    e.set("text", p.s.clone());
                } else {
                    e.kids.push(X::Text(p.s.clone()));
                }
                if c.opts.classes && p.f % 5 == 0 {
                    e.add_class("d-text-bold");
                }
                out.push(e);
            }
            16 => {
                let mut e = XEl::new("point");
                e.set("xy", format!("{} {}", num(p.n[0]), num(p.n[1])));
                let id = c.n_ids;
                e.attrs.insert(0, ("id".into(), format!("e{id}")));
                c.n_ids += 1;
                out.push(e);
            }
            17 => {
                let mut e = XEl::new("box");
                pos_attrs(&mut e, p, c, false);
                e.set("wh", format!("{} {}", num(p.n[2]), num(p.n[3])));
                let id = c.n_ids;
                e.attrs.insert(0, ("id".into(), format!("e{id}")));
                c.n_ids += 1;
                out.push(e);
            }
            18 | 19 => {
                // containment
                let mut e = XEl::new(if p.f % 5 == 0 { "circle" } else if p.f % 5 == 1 { "ellipse" } else { "rect" });
                if let (Some(a), Some(b)) = (c.elref(p.r[0], false), c.elref(p.r[1], false)) {
                    e.set(if p.f % 4 == 0 { "inside" } else { "surround" }, format!("{a} {b}"));
                    if p.f % 3 != 0 {
                        e.set("margin", match p.f % 7 { 0 => "10%".to_string(), 1 => format!("{} {}", num(p.n[2]), num(p.n[3])), _ => num(p.n[2]) });
                    }
                } else {
                    e.set("wh", "5");
                }
                let id = c.n_ids;
                deco(&mut e, p, c, Some(id));
                c.n_ids += 1;
                out.push(e);
            }
            20 => {
                let mut e = XEl::new("image");
                pos_attrs(&mut e, p, c, false);
                e.set("wh", format!("{} {}", num(p.n[2]), num(p.n[3])));
                e.set("href", "pic.png");
                out.push(e);
            }
            21 => {
                // title/desc/unknown element with text
                let mut e = XEl::new(if p.f % 2 == 0 { "title" } else { "desc" });
                e.kids.push(X::Text(p.s.clone()));
                out.push(e);
            }
            22 | 23 if c.opts.exprs => {
                let name = format!("v{}", c.vars.len());
                let e = XEl::new("var").a(&name, c.numstr(p.n[4], p.f));
                c.vars.push(name);
                out.push(e);
            }
            24..=26 if depth < 3 => {
                // group with the next k picks as content
                let k = (p.r[0] as usize % 5).min(picks.len() - i);
                let mut g = XEl::new("g");
                let id = c.n_ids;
                c.n_ids += 1;
                g.attrs.push(("id".into(), format!("e{id}")));
                match p.f % 4 {
                    0 => g.set("transform", format!("translate({} {})", num(p.n[0]), num(p.n[1]))),
                    1 => g.set("transform", format!("translate({}, {}) scale({})", num(p.n[0]), num(p.n[1]), num(p.n[2] / 8.0))),
                    2 => g.set("transform", format!("rotate({})", num(p.n[0]))),
                    _ => {}
                }
                if c.opts.exprs && p.f % 5 == 0 {
                    g.set("gsize", num(p.n[2]));
                }
                if c.opts.classes {
                    // class lists on containers, also through variables whose expansions overlap
                    match p.r[1] % 5 {
                        0 if c.opts.exprs => g.set("class", "$cva $cvb"),
                        1 if c.opts.exprs => g.set("class", "thing $cva thing"),
                        2 => g.set("class", "d-softshadow my-class"),
                        3 => g.set("class", "thing other thing"),
                        _ => {}
                    }
                }
                let kids = build(&picks[i..i + k], c, depth + 1);
                i += k;
                g.kids = kids.into_iter().map(X::El).collect();
                out.push(g);
            }
            27 | 28 if depth < 3 => {
                let k = (p.r[0] as usize % 4).min(picks.len() - i);
                let mut l = XEl::new("loop");
                match p.f % 4 {
                    0 | 1 => {
                        l.set("count", format!("{}", p.r[1] % 5));
                        if p.f % 8 < 4 {
                            l.set("loop-var", format!("i{depth}"));
                            l.set("step", num(p.n[4]));
                        }
                    }
                    2 => {
                        let v = format!("w{}", c.vars.len());
                        c.vars.push(v.clone());
                        out.push(XEl::new("var").a(&v, "0"));
                        l.set("while", format!("{{{{lt(${v}, {})}}}}", p.r[1] % 5));
                        l.kids.push(X::El(XEl::new("var").a(&v, format!("{{{{${v} + 1}}}}"))));
                    }
                    _ => {
                        let v = format!("w{}", c.vars.len());
                        c.vars.push(v.clone());
                        out.push(XEl::new("var").a(&v, "0"));
                        l.set("until", format!("{{{{ge(${v}, {})}}}}", p.r[1] % 5));
                        l.kids.push(X::El(XEl::new("var").a(&v, format!("{{{{${v} + 1}}}}"))));
                    }
                }
                // ids inside loops would repeat: build children then strip their ids
                let saved = c.n_ids;
                let kids = build(&picks[i..i + k], c, depth + 1);
                c.n_ids = saved;
                i += k;
                for mut kid in kids {
                    strip_ids(&mut kid);
                    l.kids.push(X::El(kid));
                }
                out.push(l);
            }
            29 if depth < 3 => {
                let k = (p.r[0] as usize % 4).min(picks.len() - i);
                let mut l = XEl::new("if");
                l.set("test", match p.f % 4 { 0 => "1".to_string(), 1 => "0".to_string(), 2 => format!("gt({}, 0)", num(p.n[4])), _ => format!("{{{{{} lt 3}}}}", num(p.n[4])) });
                let saved = c.n_ids;
                let kids = build(&picks[i..i + k], c, depth + 1);
                c.n_ids = saved;
                i += k;
                for mut kid in kids {
                    strip_ids(&mut kid);
                    l.kids.push(X::El(kid));
                }
                out.push(l);
            }
            30 | 31 => {
                // template in specs + reuse
                let t = format!("t{}", c.templates.len());
                c.templates.push(t.clone());
                let tpl = if p.f % 2 == 0 {
                    XEl::new("rect").a("id", t.clone()).a("wh", "$sz").a("text", "$label")
                } else {
                    XEl::new("g").a("id", t.clone()).kid(XEl::new("circle").a("r", "$sz")).kid(XEl::new("text").a("xy", "^@b").a("text", "$label"))
                };
                out.push(XEl::new("specs").kid(tpl));
                let mut r = XEl::new("reuse").a("href", format!("#{t}")).a("sz", num(p.n[2])).a("label", p.s.clone());
                if p.f % 3 == 0 {
                    r.set("x", num(p.n[0]));
                    r.set("y", num(p.n[1]));
                }
                let id = c.n_ids;
                c.n_ids += 1;
                r.attrs.insert(0, ("id".into(), format!("e{id}")));
                out.push(r);
            }
            32 => {
                if !c.templates.is_empty() {
                    let t = &c.templates[idx(p.r[0], c.templates.len())];
                    let mut r = XEl::new("reuse").a("href", format!("#{t}")).a("sz", num(p.n[3])).a("label", "again").a("class", "thing");
                    // attributes of the instance that the target does not have itself (appended to it)
                    if p.f % 2 == 0 {
                        r.set("style", "fill: red; opacity: 0.5");
                        r.set("transform", format!("rotate({})", num(p.n[0])));
                    }
                    if p.f % 3 == 0 {
                        r.set("x", num(p.n[1]));
                        r.set("y", num(p.n[2]));
                    }
                    out.push(r);
                }
            }
            33 => {
                // use of an earlier element
                if let Some(r) = c.elref(p.r[0], false) {
                    let mut u = XEl::new("use").a("href", r);
                    if p.f % 2 == 0 {
                        u.set("x", num(p.n[0]));
                        u.set("y", num(p.n[1]));
                    }
                    out.push(u);
                }
            }
            34 => {
                // defs with clipPath, and an element clipped by it
                let cid = format!("clip{}", c.n_ids);
                out.push(XEl::new("defs").kid(XEl::new("clipPath").a("id", cid.clone()).kid(XEl::new("rect").a("xy", format!("{} {}", num(p.n[0]), num(p.n[1]))).a("wh", num(p.n[2])))));
                let id = c.n_ids;
                c.n_ids += 1;
                out.push(XEl::new("rect").a("id", format!("e{id}")).a("xy", format!("{} {}", num(p.n[0] - 2.0), num(p.n[1] - 2.0))).a("wh", num(p.n[3] + 4.0)).a("clip-path", format!("url(#{cid})")));
            }
            35 => {
                let mut d = XEl::new("defaults");
                let mut r = XEl::new(if p.f % 2 == 0 { "rect" } else { "_" });
                if c.opts.classes {
                    r.set("class", STYLE_CLASSES[p.r[0] as usize % STYLE_CLASSES.len()]);
                }
                r.set("rx", "2");
                d.kids.push(X::El(r));
                out.push(d);
            }
            36 => {
                let mut cfgel = XEl::new("config");
                match p.f % 5 {
                    0 => cfgel.set("border", format!("{}", p.r[0] % 30)),
                    1 => cfgel.set("theme", THEMES[p.r[0] as usize % 6]),
                    2 => cfgel.set("font-size", "4"),
                    3 => cfgel.set("background", "lightgrey"),
                    _ => cfgel.set("seed", format!("{}", p.r[0])),
                }
                out.push(cfgel);
            }
            37 => {
                // for loop
                let k = (p.r[0] as usize % 3).min(picks.len() - i);
                let mut l = XEl::new("for");
                l.set("data", "1, 2, 5");
                l.set("var", "item");
                let saved = c.n_ids;
                let kids = build(&picks[i..i + k], c, depth + 1);
                c.n_ids = saved;
                i += k;
                for mut kid in kids {
                    strip_ids(&mut kid);
                    l.kids.push(X::El(kid));
                }
                out.push(l);
            }
            38 => {
                out.push(XEl::new("a").a("href", "http://example.com/?a=1&b=2").kid(XEl::new("rect").a("xy", format!("{} {}", num(p.n[0]), num(p.n[1]))).a("wh", num(p.n[2]))));
            }
            _ => {
                // gradient in defs
                out.push(XEl::new("defs").kid(
                    XEl::new("linearGradient").a("id", format!("grad{}", c.n_ids)).kid(XEl::new("stop").a("offset", "5%").a("stop-color", "gold")).kid(XEl::new("stop").a("offset", "95%").a("stop-color", "red")),
                ));
            }
        }
    }
    out
}

fn strip_ids(e: &mut XEl) {
    e.attrs.retain(|(k, _)| k != "id");
    for k in e.kids.iter_mut() {
        if let X::El(c) = k {
            strip_ids(c);
        }
    }
}

pub fn build_doc(picks: &[Pick], opts: &DocOpts) -> String {
    let mut c = Ctx { n_ids: 0, vars: vec![], opts: opts.clone(), templates: vec![] };
    let mut els = build(picks, &mut c, 0);
    if opts.classes && opts.exprs {
        els.insert(0, XEl::new("var").a("cva", "d-thick d-blue").a("cvb", "d-blue my-class d-thick"));
    }
    if opts.root {
        svg_root(els).to_xml()
    } else {
        els.iter().map(|e| e.to_xml()).collect::<Vec<_>>().join("\n")
    }
}

/// Structured svgdx documents.
pub fn docgen(opts: DocOpts, max_elems: usize, text: BoxedStrategy<String>) -> BoxedStrategy<String> {
    vec(pick(text), 1..=max_elems).prop_map(move |picks| build_doc(&picks, &opts)).boxed()
}

// ---------------------------------------------------------------------------
// corpus: examples shipped with the repository + inputs lifted from its tests

pub fn corpus_files() -> Vec<(String, Vec<u8>)> {
    let mut out = Vec::new();
    for dir in ["/verif/fuzz/seeds", "/verif/corpus"] {
        if let Ok(rd) = std::fs::read_dir(dir) {
            let mut names: Vec<_> = rd.filter_map(|e| e.ok()).map(|e| e.path()).filter(|p| p.is_file()).collect();
            names.sort();
            for p in names {
                if let Ok(b) = std::fs::read(&p) {
                    out.push((p.file_name().unwrap().to_string_lossy().to_string(), b));
                }
            }
        }
    }
    out
}

pub fn corpus_strings() -> Vec<(String, String)> {
    corpus_files().into_iter().filter_map(|(n, b)| String::from_utf8(b).ok().map(|s| (n, s))).collect()
}
