pub mod engine;
pub mod fuzzdrv;
pub mod fuzzrider;
pub mod gen;
pub mod model;
pub mod props;
pub mod run;
pub mod sxml;
