//! C09 Relative positioning places elements exactly where the relspec says.
//!
//! The case is a *specification* of a reference DAG; the judge renders it to an svgdx
//! document, runs svgdx, computes every element's expected box with an independent
//! layout model (written from docs/mdbook layout.md / attribute-ref.md and the property
//! statement, in f64) and compares with the geometry read from the output.

use crate::engine::{Family, Property, Tier, Verdict};
use crate::gen::{self, XEl, X};
use crate::model::{out_bbox, BBox, EdgeOff};
use crate::run::{num, transform, Cfg, Outcome};
use crate::sxml;
use proptest::collection::vec;
use proptest::prelude::*;
use serde::{Deserialize, Serialize};

pub struct C09;

#[derive(Clone, Copy, Debug, PartialEq, Serialize, Deserialize)]
pub enum Kind {
    Rect,
    Circle,
    Ellipse,
    Line,
    Box,
    Point,
    Group,
}

#[derive(Clone, Copy, Debug, PartialEq, Serialize, Deserialize)]
pub enum Rf {
    Id(usize),
    Prev,
}

#[derive(Clone, Copy, Debug, PartialEq, Serialize, Deserialize)]
pub enum Adj {
    Abs(f64),
    Pct(f64),
}

impl Adj {
    fn apply(&self, v: f64) -> f64 {
        match self {
            Adj::Abs(a) => v + a,
            Adj::Pct(p) => v * p / 100.0,
        }
    }
    fn txt(&self) -> String {
        match self {
            Adj::Abs(a) => num(*a),
            Adj::Pct(p) => format!("{}%", num(*p)),
        }
    }
}

#[derive(Clone, Debug, PartialEq, Serialize, Deserialize)]
pub enum LocForm {
    Named(String),
    Edge(String, EdgeOff),
}

impl LocForm {
    fn txt(&self) -> String {
        match self {
            LocForm::Named(l) => l.clone(),
            LocForm::Edge(e, EdgeOff::Abs(a)) => format!("{e}:{}", num(*a)),
            LocForm::Edge(e, EdgeOff::Ratio(r)) => format!("{e}:{}%", num(*r * 100.0)),
        }
    }
    fn point(&self, b: &BBox) -> (f64, f64) {
        match self {
            LocForm::Named(l) => b.loc(l),
            LocForm::Edge(e, off) => b.edge(e, *off),
        }
    }
}

#[derive(Clone, Debug, PartialEq, Serialize, Deserialize)]
pub enum SizeSpec {
    /// wh="w h" (or width/height, or r / rx ry for circle/ellipse)
    Abs(f64, f64, u8),
    /// wh="R"
    Same(Rf),
    /// wh="R p%"
    Pct(Rf, f64),
    /// wh="R dw dh"
    Delta(Rf, f64, f64),
    /// width="R~s [adj]" height="R~s [adj]"
    Scalar(Rf, String, Option<Adj>, String, Option<Adj>),
}

#[derive(Clone, Debug, PartialEq, Serialize, Deserialize)]
pub enum AxisVal {
    Abs(f64),
    At(Rf, LocForm, Option<f64>),
    Bare(Rf, Option<f64>),
    Scalar(Rf, String, Option<Adj>),
}

#[derive(Clone, Debug, PartialEq, Serialize, Deserialize)]
pub enum PosSpec {
    /// xy="x y"
    Abs(f64, f64),
    /// cxy="x y"
    AbsC(f64, f64),
    /// xy="R|d [gap]"
    Dir(Rf, char, Option<f64>),
    /// xy|cxy="R@loc [dx [dy]]" [xy-loc]
    Loc { centre: bool, r: Rf, loc: LocForm, off: Option<(f64, Option<f64>)>, xyloc: Option<String> },
    /// xy|cxy="R [dx [dy]]"
    Bare { centre: bool, r: Rf, off: Option<(f64, Option<f64>)> },
    /// per-axis: (which: 0 start, 1 centre, 2 end, value)
    Axis(u8, AxisVal, u8, AxisVal),
}

#[derive(Clone, Debug, PartialEq, Serialize, Deserialize)]
pub enum PointSpec {
    Abs(f64, f64),
    At(Rf, LocForm, Option<(f64, Option<f64>)>),
    Bare(Rf),
}

#[derive(Clone, Debug, PartialEq, Serialize, Deserialize)]
pub struct Node {
    pub kind: Kind,
    pub size: SizeSpec,
    pub dwh: Option<(Adj, Adj)>,
    pub pos: PosSpec,
    pub dxy: Option<(f64, f64)>,
    /// lines
    pub p1: Option<PointSpec>,
    pub p2: Option<PointSpec>,
    /// group children: absolute rects (x, y, w, h)
    pub kids: Vec<(f64, f64, f64, f64)>,
}

#[derive(Clone, Debug, Serialize, Deserialize)]
pub struct Case {
    pub nodes: Vec<Node>,
}

pub fn id_of(i: usize) -> String {
    format!("n{i}")
}

fn rf_txt(r: &Rf) -> String {
    match r {
        Rf::Id(i) => format!("#{}", id_of(*i)),
        Rf::Prev => "^".to_string(),
    }
}

fn off_txt(off: &Option<(f64, Option<f64>)>) -> String {
    match off {
        None => String::new(),
        Some((a, None)) => format!(" {}", num(*a)),
        Some((a, Some(b))) => format!(" {} {}", num(*a), num(*b)),
    }
}

fn axis_txt(v: &AxisVal) -> String {
    match v {
        AxisVal::Abs(a) => num(*a),
        AxisVal::At(r, l, o) => format!("{}@{}{}", rf_txt(r), l.txt(), o.map(|o| format!(" {}", num(o))).unwrap_or_default()),
        AxisVal::Bare(r, o) => format!("{}{}", rf_txt(r), o.map(|o| format!(" {}", num(o))).unwrap_or_default()),
        AxisVal::Scalar(r, s, a) => format!("{}~{}{}", rf_txt(r), s, a.map(|a| format!(" {}", a.txt())).unwrap_or_default()),
    }
}

fn point_txt(p: &PointSpec) -> String {
    match p {
        PointSpec::Abs(x, y) => format!("{} {}", num(*x), num(*y)),
        PointSpec::At(r, l, o) => format!("{}@{}{}", rf_txt(r), l.txt(), off_txt(o)),
        PointSpec::Bare(r) => rf_txt(r),
    }
}

pub fn node_xml(i: usize, n: &Node) -> XEl {
    let name = match n.kind {
        Kind::Rect => "rect",
        Kind::Circle => "circle",
        Kind::Ellipse => "ellipse",
        Kind::Line => "line",
        Kind::Box => "box",
        Kind::Point => "point",
        Kind::Group => "g",
    };
    let mut e = XEl::new(name).a("id", id_of(i));
    if n.kind == Kind::Group {
        for (x, y, w, h) in &n.kids {
            e.kids.push(X::El(XEl::new("rect").a("xy", format!("{} {}", num(*x), num(*y))).a("wh", format!("{} {}", num(*w), num(*h)))));
        }
        return e;
    }
    if n.kind == Kind::Line && n.p1.is_some() {
        if let (Some(p1), Some(p2)) = (&n.p1, &n.p2) {
            e.set("xy1", point_txt(p1));
            e.set("xy2", point_txt(p2));
        }
        if let Some((dx, dy)) = n.dxy {
            e.set("dxy", format!("{} {}", num(dx), num(dy)));
        }
        return e;
    }
    // size
    if n.kind != Kind::Point {
        match &n.size {
            SizeSpec::Abs(w, h, style) => match (n.kind, style % 3) {
                // a horizontal or vertical line given by its one extent
                (Kind::Line, _) => {
                    if *w != 0.0 {
                        e.set("width", num(*w));
                    }
                    if *h != 0.0 {
                        e.set("height", num(*h));
                    }
                }
                (Kind::Circle, 0) => e.set("r", num(w / 2.0)),
                (Kind::Ellipse, 0) => {
                    e.set("rx", num(w / 2.0));
                    e.set("ry", num(h / 2.0));
                }
                (Kind::Ellipse, 1) => e.set("rxy", format!("{} {}", num(w / 2.0), num(h / 2.0))),
                (_, 2) => {
                    e.set("width", num(*w));
                    e.set("height", num(*h));
                }
                _ => {
                    if w == h && style % 2 == 0 {
                        e.set("wh", num(*w));
                    } else {
                        e.set("wh", format!("{} {}", num(*w), num(*h)));
                    }
                }
            },
            SizeSpec::Same(r) => e.set("wh", rf_txt(r)),
            SizeSpec::Pct(r, p) => e.set("wh", format!("{} {}%", rf_txt(r), num(*p))),
            SizeSpec::Delta(r, dw, dh) => e.set("wh", format!("{} {} {}", rf_txt(r), num(*dw), num(*dh))),
            SizeSpec::Scalar(r, sw, aw, sh, ah) => {
                e.set("width", format!("{}~{}{}", rf_txt(r), sw, aw.map(|a| format!(" {}", a.txt())).unwrap_or_default()));
                e.set("height", format!("{}~{}{}", rf_txt(r), sh, ah.map(|a| format!(" {}", a.txt())).unwrap_or_default()));
            }
        }
        if let Some((dw, dh)) = &n.dwh {
            if dw == dh {
                e.set("dwh", dw.txt());
            } else {
                e.set("dw", dw.txt());
                e.set("dh", dh.txt());
            }
        }
    }
    match &n.pos {
        PosSpec::Abs(x, y) => e.set("xy", format!("{} {}", num(*x), num(*y))),
        PosSpec::AbsC(x, y) => e.set("cxy", format!("{} {}", num(*x), num(*y))),
        PosSpec::Dir(r, d, gap) => e.set("xy", format!("{}|{}{}", rf_txt(r), d, gap.map(|g| format!(" {}", num(g))).unwrap_or_default())),
        PosSpec::Loc { centre, r, loc, off, xyloc } => {
            e.set(if *centre { "cxy" } else { "xy" }, format!("{}@{}{}", rf_txt(r), loc.txt(), off_txt(off)));
            if let (false, Some(l)) = (centre, xyloc) {
                e.set("xy-loc", l.clone());
            }
        }
        PosSpec::Bare { centre, r, off } => e.set(if *centre { "cxy" } else { "xy" }, format!("{}{}", rf_txt(r), off_txt(off))),
        PosSpec::Axis(wx, vx, wy, vy) => {
            e.set(["x", "cx", "x2"][*wx as usize % 3], axis_txt(vx));
            e.set(["y", "cy", "y2"][*wy as usize % 3], axis_txt(vy));
        }
    }
    if let Some((dx, dy)) = n.dxy {
        if dx == dy {
            e.set("dxy", num(dx));
        } else {
            e.set("dx", num(dx));
            e.set("dy", num(dy));
        }
    }
    e
}

pub fn case_xml(c: &Case) -> String {
    gen::svg_root(c.nodes.iter().enumerate().map(|(i, n)| node_xml(i, n)).collect()).to_xml()
}

// --------------------------------------------------------------------------- reference model

fn resolve(r: &Rf, i: usize, boxes: &[Option<BBox>]) -> Option<BBox> {
    match r {
        Rf::Id(j) => boxes.get(*j).copied().flatten(),
        Rf::Prev => {
            if i == 0 {
                None
            } else {
                boxes[i - 1]
            }
        }
    }
}

fn point_of(p: &PointSpec, i: usize, boxes: &[Option<BBox>], end: bool) -> Option<(f64, f64)> {
    match p {
        PointSpec::Abs(x, y) => Some((*x, *y)),
        PointSpec::At(r, l, off) => {
            let b = resolve(r, i, boxes)?;
            let (x, y) = l.point(&b);
            let (dx, dy) = match off {
                None => (0.0, 0.0),
                Some((a, None)) => (*a, *a),
                Some((a, Some(b))) => (*a, *b),
            };
            Some((x + dx, y + dy))
        }
        // a bare reference anchors on the same side as the attribute: xy1 -> top-left, xy2 -> bottom-right
        PointSpec::Bare(r) => {
            let b = resolve(r, i, boxes)?;
            Some(if end { (b.x2, b.y2) } else { (b.x1, b.y1) })
        }
    }
}

fn axis_val(v: &AxisVal, which: u8, horizontal: bool, i: usize, boxes: &[Option<BBox>]) -> Option<f64> {
    Some(match v {
        AxisVal::Abs(a) => *a,
        AxisVal::At(r, l, off) => {
            let b = resolve(r, i, boxes)?;
            let (x, y) = l.point(&b);
            (if horizontal { x } else { y }) + off.unwrap_or(0.0)
        }
        AxisVal::Bare(r, off) => {
            let b = resolve(r, i, boxes)?;
            let base = match (which % 3, horizontal) {
                (0, true) => b.x1,
                (1, true) => b.cx(),
                (_, true) => b.x2,
                (0, false) => b.y1,
                (1, false) => b.cy(),
                (_, false) => b.y2,
            };
            base + off.unwrap_or(0.0)
        }
        AxisVal::Scalar(r, s, adj) => {
            let b = resolve(r, i, boxes)?;
            let v = b.scalar(s);
            adj.map(|a| a.apply(v)).unwrap_or(v)
        }
    })
}

/// Expected box of every node (None = no box / not computable). Returns also the chain depth per node
/// and a bound on the absolute error of the box's coordinates: every element is printed with 3 decimals
/// (error <= 0.0005 per attribute) and later elements compute from those printed values, so the error of a
/// reference is carried - and multiplied by any percentage applied to it - into the referrer.
pub fn model(c: &Case) -> (Vec<Option<BBox>>, Vec<usize>, Vec<f64>) {
    const ROUND: f64 = 0.00051;
    let mut boxes: Vec<Option<BBox>> = Vec::new();
    let mut depth: Vec<usize> = Vec::new();
    let mut errs: Vec<f64> = Vec::new();
    for (i, n) in c.nodes.iter().enumerate() {
        let mut d = 0usize;
        let mut e_in = 0.0f64;
        let mut dep = |r: &Rf, depth: &Vec<usize>| {
            let j = match r {
                Rf::Id(j) => Some(*j),
                Rf::Prev => i.checked_sub(1),
            };
            if let Some(j) = j {
                if j < depth.len() {
                    d = d.max(depth[j] + 1);
                    e_in = e_in.max(errs[j]);
                }
            }
        };
        let b = (|| -> Option<BBox> {
            match n.kind {
                Kind::Group => {
                    let mut u: Option<BBox> = None;
                    for (x, y, w, h) in &n.kids {
                        let k = BBox::xywh(*x, *y, *w, *h);
                        u = Some(u.map(|u| u.union(&k)).unwrap_or(k));
                    }
                    u
                }
                Kind::Line if n.p1.is_some() => {
                    for p in [&n.p1, &n.p2].into_iter().flatten() {
                        if let PointSpec::At(r, ..) | PointSpec::Bare(r) = p {
                            dep(r, &depth);
                        }
                    }
                    let (x1, y1) = point_of(n.p1.as_ref()?, i, &boxes, false)?;
                    let (x2, y2) = point_of(n.p2.as_ref()?, i, &boxes, true)?;
                    let (dx, dy) = n.dxy.unwrap_or((0.0, 0.0));
                    Some(BBox::new(x1.min(x2) + dx, y1.min(y2) + dy, x1.max(x2) + dx, y1.max(y2) + dy))
                }
                _ => {
                    // size first
                    let (mut w, mut h) = if n.kind == Kind::Point {
                        (0.0, 0.0)
                    } else {
                        match &n.size {
                            SizeSpec::Abs(w, h, _) => (*w, *h),
                            SizeSpec::Same(r) => {
                                dep(r, &depth);
                                let b = resolve(r, i, &boxes)?;
                                (b.w(), b.h())
                            }
                            SizeSpec::Pct(r, p) => {
                                dep(r, &depth);
                                let b = resolve(r, i, &boxes)?;
                                (b.w() * p / 100.0, b.h() * p / 100.0)
                            }
                            SizeSpec::Delta(r, dw, dh) => {
                                dep(r, &depth);
                                let b = resolve(r, i, &boxes)?;
                                (b.w() + dw, b.h() + dh)
                            }
                            SizeSpec::Scalar(r, sw, aw, sh, ah) => {
                                dep(r, &depth);
                                let b = resolve(r, i, &boxes)?;
                                let w = b.scalar(sw);
                                let h = b.scalar(sh);
                                (aw.map(|a| a.apply(w)).unwrap_or(w), ah.map(|a| a.apply(h)).unwrap_or(h))
                            }
                        }
                    };
                    if let Some((dw, dh)) = &n.dwh {
                        w = dw.apply(w);
                        h = dh.apply(h);
                    }
                    // position
                    let (x, y) = match &n.pos {
                        PosSpec::Abs(x, y) => (*x, *y),
                        PosSpec::AbsC(cx, cy) => (cx - w / 2.0, cy - h / 2.0),
                        PosSpec::Dir(r, dch, gap) => {
                            dep(r, &depth);
                            let b = resolve(r, i, &boxes)?;
                            let g = gap.unwrap_or(0.0);
                            match dch {
                                'h' => (b.x2 + g, b.cy() - h / 2.0),
                                'H' => (b.x1 - g - w, b.cy() - h / 2.0),
                                'v' => (b.cx() - w / 2.0, b.y2 + g),
                                _ => (b.cx() - w / 2.0, b.y1 - g - h),
                            }
                        }
                        PosSpec::Loc { centre, r, loc, off, xyloc } => {
                            dep(r, &depth);
                            let b = resolve(r, i, &boxes)?;
                            let (px, py) = loc.point(&b);
                            let (dx, dy) = match off {
                                None => (0.0, 0.0),
                                Some((a, None)) => (*a, *a),
                                Some((a, Some(b))) => (*a, *b),
                            };
                            let (px, py) = (px + dx, py + dy);
                            // the element's anchor (top-left by default, xy-loc, or centre for cxy) sits on the point
                            let anchor = if *centre { "c".to_string() } else { xyloc.clone().unwrap_or("tl".into()) };
                            let (ax, ay) = BBox::xywh(0.0, 0.0, w, h).loc(&anchor);
                            (px - ax, py - ay)
                        }
                        PosSpec::Bare { centre, r, off } => {
                            dep(r, &depth);
                            let b = resolve(r, i, &boxes)?;
                            let (dx, dy) = match off {
                                None => (0.0, 0.0),
                                Some((a, None)) => (*a, *a),
                                Some((a, Some(b))) => (*a, *b),
                            };
                            if *centre {
                                (b.cx() + dx - w / 2.0, b.cy() + dy - h / 2.0)
                            } else {
                                (b.x1 + dx, b.y1 + dy)
                            }
                        }
                        PosSpec::Axis(wx, vx, wy, vy) => {
                            for v in [vx, vy] {
                                if let AxisVal::At(r, ..) | AxisVal::Bare(r, _) | AxisVal::Scalar(r, ..) = v {
                                    dep(r, &depth);
                                }
                            }
                            let ax = axis_val(vx, *wx, true, i, &boxes)?;
                            let ay = axis_val(vy, *wy, false, i, &boxes)?;
                            let x = match wx % 3 {
                                0 => ax,
                                1 => ax - w / 2.0,
                                _ => ax - w,
                            };
                            let y = match wy % 3 {
                                0 => ay,
                                1 => ay - h / 2.0,
                                _ => ay - h,
                            };
                            (x, y)
                        }
                    };
                    let (dx, dy) = n.dxy.unwrap_or((0.0, 0.0));
                    Some(BBox::xywh(x + dx, y + dy, w, h))
                }
            }
        })();
        // amplification: the largest percentage applied to a referenced value on the way to this element
        let pct = |a: &Option<Adj>| -> f64 {
            if let Some(Adj::Pct(p)) = a {
                (p / 100.0).max(1.0)
            } else {
                1.0
            }
        };
        let mut mult = 1.0f64;
        match &n.size {
            SizeSpec::Pct(_, p) => mult *= (p / 100.0).max(1.0),
            SizeSpec::Scalar(_, _, a, _, b) => mult *= pct(a) * pct(b),
            _ => {}
        }
        if let Some((a, b)) = &n.dwh {
            mult *= pct(&Some(*a)) * pct(&Some(*b));
        }
        if let PosSpec::Axis(_, vx, _, vy) = &n.pos {
            for v in [vx, vy] {
                if let AxisVal::Scalar(_, _, a) = v {
                    mult *= pct(a);
                }
            }
        }
        // a width is the difference of two coordinates (2 x error); position adds the size error again
        let e = if d == 0 { 2.0 * ROUND } else { (6.0 * e_in) * mult + 3.0 * ROUND };
        boxes.push(b);
        depth.push(d);
        errs.push(e);
    }
    (boxes, depth, errs)
}

// --------------------------------------------------------------------------- generator

#[derive(Clone, Debug)]
pub struct NPick {
    kind: u8,
    n: [f64; 6],
    r: [u8; 4],
    f: u32,
}

pub fn npick() -> impl Strategy<Value = NPick> {
    (
        0u8..20,
        [gen::nice(80).boxed(), gen::nice(80).boxed(), gen::nice_pos(40).boxed(), gen::nice_pos(40).boxed(), gen::nice(15).boxed(), gen::nice(15).boxed()],
        [any::<u8>(), any::<u8>(), any::<u8>(), any::<u8>()],
        any::<u32>(),
    )
        .prop_map(|(kind, n, r, f)| NPick { kind, n, r, f })
}

const PCTS: [f64; 9] = [0.0, 10.0, 12.5, 25.0, 50.0, 75.0, 100.0, 125.0, 200.0];
const SCALARS_X: [&str; 8] = ["x", "x1", "x2", "cx", "w", "width", "rx", "r"];
const SCALARS_Y: [&str; 7] = ["y", "y1", "y2", "cy", "h", "height", "ry"];

fn mk_ref(sel: u8, i: usize, id_only: bool) -> Rf {
    if !id_only && sel % 4 == 0 {
        Rf::Prev
    } else {
        Rf::Id((sel as usize * i) >> 8)
    }
}

fn mk_loc(f: u32, n: f64) -> LocForm {
    match f % 5 {
        0..=2 => LocForm::Named(gen::LOCS[(f >> 3) as usize % 9].to_string()),
        3 => LocForm::Edge(gen::EDGES[(f >> 3) as usize % 4].to_string(), EdgeOff::Ratio(PCTS[(f >> 5) as usize % 9] / 100.0)),
        _ => LocForm::Edge(gen::EDGES[(f >> 3) as usize % 4].to_string(), EdgeOff::Abs(n)),
    }
}

fn mk_off(f: u32, a: f64, b: f64) -> Option<(f64, Option<f64>)> {
    match f % 3 {
        0 => None,
        1 => Some((a, None)),
        _ => Some((a, Some(b))),
    }
}

pub fn build_nodes(picks: &[NPick], id_only: bool) -> Vec<Node> {
    let mut nodes: Vec<Node> = Vec::new();
    for p in picks {
        let i = nodes.len();
        let f = p.f;
        let kind = match p.kind {
            0..=6 => Kind::Rect,
            7..=9 => Kind::Circle,
            10 | 11 => Kind::Ellipse,
            12..=14 => Kind::Line,
            15 | 16 => Kind::Box,
            17 => Kind::Point,
            _ => Kind::Group,
        };
        let has_ref = i > 0;
        let r0 = mk_ref(p.r[0], i, id_only);
        let r1 = mk_ref(p.r[1], i, id_only);
        let mut node = Node { kind, size: SizeSpec::Abs(p.n[2], p.n[3], (f >> 28) as u8), dwh: None, pos: PosSpec::Abs(p.n[0], p.n[1]), dxy: None, p1: None, p2: None, kids: vec![] };
        match kind {
            Kind::Group => {
                let k = 1 + (f % 3) as usize;
                for j in 0..k {
                    node.kids.push((p.n[0] + j as f64 * p.n[4], p.n[1] + j as f64 * p.n[5], p.n[2], p.n[3]));
                }
            }
            Kind::Line if has_ref && f % 5 == 0 => {
                // a horizontal / vertical line given by one extent and positioned like any other shape
                node.size = if f & 0x20 != 0 { SizeSpec::Abs(p.n[2].max(0.5), 0.0, 2) } else { SizeSpec::Abs(0.0, p.n[3].max(0.5), 2) };
                node.pos = match (f >> 6) % 4 {
                    0 => PosSpec::Abs(p.n[0], p.n[1]),
                    1 | 2 => PosSpec::Dir(r0, ['h', 'H', 'v', 'V'][(f >> 8) as usize % 4], if f & 0x400 != 0 { Some(p.n[4]) } else { None }),
                    _ => PosSpec::Loc { centre: f & 0x800 != 0, r: r0, loc: mk_loc(f >> 12, p.n[4]), off: mk_off(f >> 20, p.n[4], p.n[5]), xyloc: None },
                };
            }
            Kind::Line => {
                let mk_pt = |sel: u32, r: Rf, a: f64, b: f64, n: f64| -> PointSpec {
                    if !has_ref {
                        return PointSpec::Abs(a, b);
                    }
                    match sel % 4 {
                        0 => PointSpec::Abs(a, b),
                        1 | 2 => PointSpec::At(r, mk_loc(sel >> 2, n), mk_off(sel >> 12, p.n[4], p.n[5])),
                        _ => PointSpec::Bare(r),
                    }
                };
                node.p1 = Some(mk_pt(f, r0, p.n[0], p.n[1], p.n[4]));
                node.p2 = Some(mk_pt(f >> 14, r1, p.n[0] + p.n[2], p.n[1] + p.n[5], p.n[5]));
                if f % 7 == 0 {
                    node.dxy = Some((p.n[4], p.n[5]));
                }
            }
            _ => {
                // size
                let square = kind == Kind::Circle;
                if square {
                    node.size = SizeSpec::Abs(p.n[2], p.n[2], (f >> 28) as u8);
                }
                if has_ref && kind != Kind::Point && !square {
                    node.size = match (f >> 4) % 8 {
                        0 => SizeSpec::Same(r1),
                        1 => SizeSpec::Pct(r1, PCTS[1 + (f >> 8) as usize % 8]),
                        2 => SizeSpec::Delta(r1, p.n[4].abs(), p.n[5].abs()),
                        3 if kind == Kind::Rect || kind == Kind::Box => SizeSpec::Scalar(
                            r1,
                            SCALARS_X[4 + (f >> 8) as usize % 4].to_string(),
                            if f & 0x800 != 0 { Some(Adj::Abs(p.n[4].abs())) } else { None },
                            SCALARS_Y[4 + (f >> 10) as usize % 3].to_string(),
                            if f & 0x1000 != 0 { Some(Adj::Pct(PCTS[2 + (f >> 13) as usize % 7])) } else { None },
                        ),
                        _ => node.size.clone(),
                    };
                }
                if (kind == Kind::Rect || kind == Kind::Box) && (f >> 16) % 6 == 0 {
                    node.dwh = Some(match (f >> 19) % 3 {
                        // (sizes stay positive: negative deltas are kept smaller than any generated size)
                        0 => (Adj::Abs(p.n[4].abs()), Adj::Abs(p.n[4].abs())),
                        1 => (Adj::Abs(p.n[4].abs()), Adj::Pct(PCTS[2 + (f >> 21) as usize % 7])),
                        _ => (Adj::Pct(PCTS[2 + (f >> 21) as usize % 7]), Adj::Abs(p.n[5].abs())),
                    });
                }
                // position
                node.pos = if !has_ref {
                    if f % 2 == 0 || kind == Kind::Point {
                        PosSpec::Abs(p.n[0], p.n[1])
                    } else {
                        PosSpec::AbsC(p.n[0], p.n[1])
                    }
                } else if kind == Kind::Point {
                    match f % 3 {
                        0 => PosSpec::Abs(p.n[0], p.n[1]),
                        _ => PosSpec::Loc { centre: false, r: r0, loc: mk_loc(f >> 2, p.n[4]), off: mk_off(f >> 12, p.n[4], p.n[5]), xyloc: None },
                    }
                } else {
                    match (f >> 1) % 10 {
                        0 => PosSpec::Abs(p.n[0], p.n[1]),
                        1 | 2 | 3 => PosSpec::Dir(r0, ['h', 'H', 'v', 'V'][(f >> 5) as usize % 4], if f & 0x80 != 0 { Some(p.n[4]) } else { None }),
                        4 | 5 => PosSpec::Loc {
                            centre: f & 0x100 != 0,
                            r: r0,
                            loc: mk_loc(f >> 9, p.n[4]),
                            off: mk_off(f >> 17, p.n[4], p.n[5]),
                            xyloc: if f & 0x100 == 0 && (f >> 20) % 3 == 0 { Some(gen::LOCS[(f >> 22) as usize % 9].to_string()) } else { None },
                        },
                        6 => PosSpec::Bare { centre: f & 0x100 != 0, r: r0, off: mk_off(f >> 17, p.n[4], p.n[5]) },
                        _ => {
                            let mk_axis = |sel: u32, r: Rf, a: f64, horizontal: bool| -> AxisVal {
                                match sel % 5 {
                                    0 => AxisVal::Abs(a),
                                    1 | 2 => AxisVal::At(r, mk_loc(sel >> 3, p.n[5]), if sel & 0x1000 != 0 { Some(p.n[4]) } else { None }),
                                    3 => AxisVal::Bare(r, if sel & 0x1000 != 0 { Some(p.n[5]) } else { None }),
                                    _ => AxisVal::Scalar(
                                        r,
                                        if horizontal { SCALARS_X[(sel >> 3) as usize % 8].to_string() } else { SCALARS_Y[(sel >> 3) as usize % 7].to_string() },
                                        match (sel >> 7) % 3 {
                                            0 => None,
                                            1 => Some(Adj::Abs(p.n[4])),
                                            _ => Some(Adj::Pct(PCTS[(sel >> 9) as usize % 9])),
                                        },
                                    ),
                                }
                            };
                            PosSpec::Axis(((f >> 5) % 3) as u8, mk_axis(f >> 7, r0, p.n[0], true), ((f >> 21) % 3) as u8, mk_axis(f >> 13, r1, p.n[1], false))
                        }
                    }
                };
                if kind == Kind::Box {
                    // <box> is documented as positioned by xy / x,y only (top-left); other anchors are not generated
                    node.pos = match node.pos {
                        PosSpec::AbsC(x, y) => PosSpec::Abs(x, y),
                        PosSpec::Loc { r, loc, off, .. } => PosSpec::Loc { centre: false, r, loc, off, xyloc: None },
                        PosSpec::Bare { r, off, .. } => PosSpec::Bare { centre: false, r, off },
                        PosSpec::Axis(_, vx, _, vy) => PosSpec::Axis(0, vx, 0, vy),
                        p => p,
                    };
                }
                if (f >> 25) % 6 == 0 && !matches!(node.pos, PosSpec::Abs(..) | PosSpec::AbsC(..)) {
                    node.dxy = Some((p.n[4], if f & 0x4000000 != 0 { p.n[4] } else { p.n[5] }));
                }
            }
        }
        nodes.push(node);
    }
    nodes
}

fn fam_dag(t: Tier) -> BoxedStrategy<Case> {
    let maxn = if t == Tier::Quick { 9 } else { 14 };
    vec(npick(), 2..maxn).prop_map(|p| Case { nodes: build_nodes(&p, false) }).boxed()
}

fn fam_chain(t: Tier) -> BoxedStrategy<Case> {
    // long reference chains: every node refers to its predecessor
    let maxn = if t == Tier::Quick { 14 } else { 60 };
    vec(npick(), 6..maxn)
        .prop_map(|mut p| {
            for k in p.iter_mut() {
                k.r = [255, 255, 255, 255]; // -> Rf::Id(i-1)
                if k.kind >= 17 {
                    k.kind = 0;
                }
            }
            Case { nodes: build_nodes(&p, true) }
        })
        .boxed()
}

pub fn compare(c: &Case, out: &str) -> Result<(usize, usize), (String, String)> {
    let tree = sxml::parse_tree(out).map_err(|e| ("c09:output-illformed".to_string(), e.to_string()))?;
    let (boxes, depth, errs) = model(c);
    let mut checked = 0;
    let mut maxdepth = 0;
    for (i, n) in c.nodes.iter().enumerate() {
        if matches!(n.kind, Kind::Box | Kind::Point | Kind::Group) {
            continue;
        }
        let want = match boxes[i] {
            Some(b) => b,
            None => continue,
        };
        let el = tree.find_id(&id_of(i)).ok_or_else(|| ("c09:element-missing".to_string(), format!("element #{} not in output", id_of(i))))?;
        let got = out_bbox(el).ok_or_else(|| ("c09:no-geometry".to_string(), format!("element #{} has no readable geometry: {:?}", id_of(i), el.attrs)))?;
        let tol = errs[i] + 4e-6 * [want.x1, want.y1, want.x2, want.y2].iter().fold(0.0f64, |m, v| m.max(v.abs()));
        let ok = (got.x1 - want.x1).abs() <= tol && (got.y1 - want.y1).abs() <= tol && (got.x2 - want.x2).abs() <= tol && (got.y2 - want.y2).abs() <= tol;
        if !ok {
            let form = match (&n.kind, &n.pos) {
                (Kind::Line, _) => "line-endpoints".to_string(),
                (_, PosSpec::Dir(_, d, _)) => format!("dir-{d}"),
                (_, PosSpec::Loc { centre, loc, xyloc, .. }) => format!("loc{}{}{}", if *centre { "-cxy" } else { "" }, if matches!(loc, LocForm::Edge(..)) { "-edge" } else { "" }, if xyloc.is_some() { "-xyloc" } else { "" }),
                (_, PosSpec::Bare { centre, .. }) => format!("bare{}", if *centre { "-cxy" } else { "" }),
                (_, PosSpec::Axis(..)) => "per-axis".to_string(),
                _ => "absolute".to_string(),
            };
            return Err((
                format!("c09:misplaced:{form}"),
                format!("element #{} ({:?}): expected box {:?}, output has {:?} (chain depth {}, tolerance {:.5})\n  spec: {:?}", id_of(i), n.kind, want, got, depth[i], tol, n),
            ));
        }
        // the positioning attributes must be gone
        for a in ["xy", "cxy", "wh", "xy-loc", "dxy", "dwh", "dw", "dh", "xy1", "xy2", "rxy"] {
            if el.has_attr(a) {
                return Err(("c09:leftover-attribute".to_string(), format!("element #{} still carries '{a}'", id_of(i))));
            }
        }
        checked += 1;
        maxdepth = maxdepth.max(depth[i]);
    }
    Ok((checked, maxdepth))
}

impl Property for C09 {
    type Case = Case;
    fn id(&self) -> &'static str {
        "C09"
    }
    fn rule(&self) -> String {
        "cases = reference DAGs of 2-14 (chains up to 60) elements over rect/circle/ellipse/line/box/point/group, each positioned and sized by one form from the relspec table: xy=\"R|h|H|v|V [gap]\", xy|cxy=\"R@loc [dx [dy]]\" with the nine locations and four edges (absolute, negative, percent offsets) and optional xy-loc, \
         bare xy|cxy=\"R\", per-axis x|cx|x2 / y|cy|y2 = \"R@loc\" | \"R\" | \"R~scalar [adj]\", sizes wh=\"R\" | \"R p%\" | \"R dw dh\" | width=\"R~s\", dw/dh/dwh absolute and percent, dx/dy/dxy, line endpoints xy1/xy2 by location; references by #id or ^; coordinates on a 1/8 grid. \
         Oracle: an independent layout model (f64, written from the layout reference) computes each element's expected box; the box read from the output's native attributes must match within 0.0006 per chain step, and no positioning shorthand may remain. \
         Non-trivial = the document contains a reference chain of depth >= 2 or a form other than |h / @tl; distinct by hash of the case."
            .into()
    }
    fn assumptions(&self) -> Vec<String> {
        vec![
            "forms whose meaning neither the documentation nor the statement pins down are not generated: <point cxy=>, <box> anchored other than by its top-left (xy / x,y as documented), <g xy=>, text anchoring, use placement, dw/dh on circles and ellipses, xy-loc combined with |h placement, two offsets on a per-axis attribute".into(),
            "documents on which the transform fails are reported as violations (every generated document is valid by construction)".into(),
        ]
    }
    fn families(&self, tier: Tier) -> Vec<Family<Case>> {
        vec![Family::random("dag", tier.n(48_000, 600_000), fam_dag), Family::random("chain", tier.n(8_000, 30_000), fam_chain)]
    }
    fn judge(&self, case: &Case, _strict: bool) -> Verdict {
        let doc = case_xml(case);
        let out = match transform(&doc, &Cfg::plain()) {
            Outcome::Ok(o) => o,
            Outcome::Err(k, m) => return Verdict::fail(format!("c09:transform-failed:{k}"), format!("{m}\n--- document ---\n{doc}"), vec![], 1),
            Outcome::Panic(l, m) => return Verdict::fail(format!("c09:panic:{l}"), format!("{m}\n--- document ---\n{doc}"), vec![], 1),
        };
        match compare(case, &out) {
            Ok((checked, maxdepth)) => {
                let mut labels = vec![format!("depth:{}", maxdepth.min(12))];
                for n in &case.nodes {
                    let l = match &n.pos {
                        PosSpec::Dir(..) => "form:dir",
                        PosSpec::Loc { loc: LocForm::Edge(..), .. } => "form:edge",
                        PosSpec::Loc { .. } => "form:loc",
                        PosSpec::Bare { .. } => "form:bare",
                        PosSpec::Axis(..) => "form:axis",
                        _ => "form:abs",
                    };
                    if !labels.iter().any(|x| x == l) {
                        labels.push(l.to_string());
                    }
                }
                Verdict::pass(checked > 0 && (maxdepth >= 2 || labels.iter().any(|l| matches!(l.as_str(), "form:edge" | "form:axis" | "form:bare"))), labels, 1)
            }
            Err((sig, detail)) => Verdict::fail(sig, format!("{detail}\n--- document ---\n{doc}\n--- output ---\n{out}"), vec![], 1),
        }
    }
}
