//! C13 Connectors start and end on the referenced elements.

use crate::engine::{Family, Property, Tier, Verdict};
use crate::gen::{self, XEl, X};
use crate::model::{fnum0, out_bbox, parse_points, BBox, EdgeOff};
use crate::run::{num, transform, Cfg, Outcome};
use crate::sxml;
use proptest::prelude::*;
use serde::{Deserialize, Serialize};

pub struct C13;

#[derive(Clone, Debug, Serialize, Deserialize)]
pub enum EndSpec {
    /// bare element reference
    El,
    /// named location
    Loc(String),
    /// edge with offset
    Edge(String, EdgeOff),
    /// literal coordinates
    Lit(f64, f64),
}

#[derive(Clone, Debug, Serialize, Deserialize)]
pub struct Case {
    /// shapes: 0 rect, 1 circle, 2 ellipse, 3 group
    pub kind_a: u8,
    pub kind_b: u8,
    pub a: [f64; 4],
    pub b: [f64; 4],
    pub start: EndSpec,
    pub end: EndSpec,
    /// 0 straight line, 1 line edge-type h, 2 line edge-type v, 3 polyline corner
    pub conn: u8,
    /// None, absolute or percent
    pub corner_offset: Option<EdgeOff>,
    /// (conn 1 / 2) the connector is written as a `<polyline>`: the edge type decides what it becomes, not the element name
    #[serde(default)]
    pub as_polyline: bool,
}

fn shape_xml(id: &str, kind: u8, b: &[f64; 4]) -> Vec<XEl> {
    let [x, y, w, h] = *b;
    vec![match kind % 6 {
        1 => XEl::new("circle").a("id", id).a("cxy", format!("{} {}", num(x + w / 2.0), num(y + w / 2.0))).a("r", num(w / 2.0)),
        2 => XEl::new("ellipse").a("id", id).a("cxy", format!("{} {}", num(x + w / 2.0), num(y + h / 2.0))).a("rxy", format!("{} {}", num(w / 2.0), num(h / 2.0))),
        3 => {
            let mut g = XEl::new("g").a("id", id);
            g.kids.push(X::El(XEl::new("rect").a("xy", format!("{} {}", num(x), num(y))).a("wh", format!("{} {}", num(w / 2.0), num(h / 2.0)))));
            g.kids.push(X::El(XEl::new("rect").a("xy", format!("{} {}", num(x + w / 2.0), num(y + h / 2.0))).a("wh", format!("{} {}", num(w / 2.0), num(h / 2.0)))));
            g
        }
        4 => {
            // an instance of a rect defined in <defs>
            let mut d = XEl::new("defs");
            // (one time in three the template holds the vertical position itself and the instance is moved along x only)
            if ((y * 8.0) as i64).rem_euclid(3) == 0 {
                d.kids.push(X::El(XEl::new("rect").a("id", format!("t{id}")).a("y", num(y)).a("width", num(w)).a("height", num(h))));
                return vec![d, XEl::new("use").a("id", id).a("href", format!("#t{id}")).a("x", num(x))];
            }
            d.kids.push(X::El(XEl::new("rect").a("id", format!("t{id}")).a("width", num(w)).a("height", num(h))));
            return vec![d, XEl::new("use").a("id", id).a("href", format!("#t{id}")).a("x", num(x)).a("y", num(y))];
        }
        5 => {
            // an instance of a rect template from <specs>
            let mut d = XEl::new("specs");
            d.kids.push(X::El(XEl::new("rect").a("id", format!("t{id}")).a("wh", format!("{} {}", num(w), num(h)))));
            return vec![d, XEl::new("reuse").a("id", id).a("href", format!("#t{id}")).a("x", num(x)).a("y", num(y))];
        }
        _ => XEl::new("rect").a("id", id).a("xy", format!("{} {}", num(x), num(y))).a("wh", format!("{} {}", num(w), num(h))),
    }]
}

fn shape_box(kind: u8, b: &[f64; 4]) -> BBox {
    let [x, y, w, h] = *b;
    if kind % 6 == 1 {
        BBox::xywh(x, y, w, w)
    } else {
        BBox::xywh(x, y, w, h)
    }
}

fn end_txt(id: &str, e: &EndSpec) -> String {
    match e {
        EndSpec::El => format!("#{id}"),
        EndSpec::Loc(l) => format!("#{id}@{l}"),
        EndSpec::Edge(ed, EdgeOff::Abs(a)) => format!("#{id}@{ed}:{}", num(*a)),
        EndSpec::Edge(ed, EdgeOff::Ratio(r)) => format!("#{id}@{ed}:{}%", num(r * 100.0)),
        EndSpec::Lit(x, y) => format!("{} {}", num(*x), num(*y)),
    }
}

pub fn case_xml(c: &Case) -> String {
    let mut els = shape_xml("a", c.kind_a, &c.a);
    els.extend(shape_xml("b", c.kind_b, &c.b));
    let mut e = XEl::new(if c.conn == 3 || (c.as_polyline && matches!(c.conn, 1 | 2)) { "polyline" } else { "line" }).a("id", "conn");
    e.set("start", end_txt("a", &c.start));
    e.set("end", end_txt("b", &c.end));
    match c.conn {
        1 => e.set("edge-type", "h"),
        2 => e.set("edge-type", "v"),
        _ => {}
    }
    // corner-offset only has a meaning on corner polylines, but it is an svgdx attribute on any connector
    // and must never reach the output
    {
        match c.corner_offset {
            Some(EdgeOff::Abs(a)) => e.set("corner-offset", num(a)),
            Some(EdgeOff::Ratio(r)) => e.set("corner-offset", format!("{}%", num(r * 100.0))),
            None => {}
        }
    }
    // (kind_a 6..11: the same shapes, and the connector holds a <title>: it is a connector all the same)
    if c.kind_a >= 6 {
        e.kids.push(X::Raw("<title>link</title>".into()));
    }
    els.push(e);
    gen::svg_root(els).to_xml()
}

// --------------------------------------------------------------------------- generator

fn endspec(allow_loc: bool) -> BoxedStrategy<EndSpec> {
    if !allow_loc {
        return prop_oneof![4 => Just(EndSpec::El), 1 => (gen::nice(40), gen::nice(40)).prop_map(|(x, y)| EndSpec::Lit(x, y))].boxed();
    }
    prop_oneof![
        4 => Just(EndSpec::El),
        3 => (0..9usize).prop_map(|i| EndSpec::Loc(gen::LOCS[i].to_string())),
        2 => (0..4usize, prop_oneof![
            gen::nice_pos(6).prop_map(EdgeOff::Abs),
            gen::nice_pos(6).prop_map(|v| EdgeOff::Abs(-v)),
            prop_oneof![Just(0.0), Just(0.2), Just(0.25), Just(0.5), Just(0.75), Just(1.0)].prop_map(EdgeOff::Ratio),
        ]).prop_map(|(i, o)| EndSpec::Edge(gen::EDGES[i].to_string(), o)),
        1 => (gen::nice(40), gen::nice(40)).prop_map(|(x, y)| EndSpec::Lit(x, y)),
    ]
    .boxed()
}

fn placement() -> impl Strategy<Value = ([f64; 4], [f64; 4])> {
    // A at a random place; B in one of the nine sectors, overlapping, touching, nested or identical
    (gen::nice(20), gen::nice(20), gen::nice_pos(14), gen::nice_pos(14), gen::nice_pos(14), gen::nice_pos(14), 0u8..14, gen::nice_pos(12), gen::nice_pos(12)).prop_map(|(ax, ay, aw, ah, bw, bh, sector, gx, gy)| {
        let (aw, ah, bw, bh) = (aw.max(2.0), ah.max(2.0), bw.max(2.0), bh.max(2.0));
        let (bx, by) = match sector {
            0 => (ax + aw + gx, ay),                 // right
            1 => (ax - bw - gx, ay),                 // left
            2 => (ax, ay + ah + gy),                 // below
            3 => (ax, ay - bh - gy),                 // above
            4 => (ax + aw + gx, ay + ah + gy),       // below right
            5 => (ax - bw - gx, ay + ah + gy),       // below left
            6 => (ax + aw + gx, ay - bh - gy),       // above right
            7 => (ax - bw - gx, ay - bh - gy),       // above left
            8 => (ax + aw / 2.0, ay + ah / 2.0),     // overlapping
            9 => (ax + aw, ay + ah / 4.0),           // touching
            10 => (ax + 0.5, ay + 0.5),              // nested-ish
            11 => (ax, ay),                          // same corner
            12 => (ax + aw + gx, ay + ah / 3.0),     // right, partial overlap on y
            _ => (ax + aw / 3.0, ay + ah + gy),      // below, partial overlap on x
        };
        let (bw, bh) = if sector == 10 { ((aw - 1.0).max(1.0), (ah - 1.0).max(1.0)) } else if sector == 11 { (aw, ah) } else { (bw, bh) };
        ([ax, ay, aw, ah], [bx, by, bw, bh])
    })
}

fn fam_connectors(_t: Tier) -> BoxedStrategy<Case> {
    (0u8..12, 0u8..6, placement(), 0u8..4, any::<u8>())
        .prop_flat_map(|(ka, kb, (a, b), conn, off)| {
            // named locations are only generated for straight lines and corner polylines; for the corner kind only edge
            // locations (t r b l and edge offsets) since a corner location has no direction
            let allow = conn == 0 || conn == 3;
            (Just((ka, kb, a, b, conn, off)), endspec(allow), endspec(allow))
        })
        .prop_map(|((kind_a, kind_b, a, b, conn, off), mut start, mut end)| {
            if conn == 3 {
                let fix = |e: &mut EndSpec| {
                    match e {
                        EndSpec::Loc(l) if l.len() == 2 || l == "c" => *e = EndSpec::Loc(["t", "r", "b", "l"][l.as_bytes()[0] as usize % 4].to_string()),
                        EndSpec::Lit(..) => *e = EndSpec::El,
                        _ => {}
                    }
                };
                fix(&mut start);
                fix(&mut end);
            }
            let corner_offset = match off % 7 {
                0 | 1 => None,
                2 => Some(EdgeOff::Abs(1.0 + (off / 7) as f64 / 4.0)),
                3 => Some(EdgeOff::Abs(2.5)),
                // negative: measured back from the end (the Length convention shared with edge offsets)
                5 => Some(EdgeOff::Abs(-(0.5 + (off / 7) as f64 / 4.0))),
                6 => Some(EdgeOff::Abs(-2.0)),
                _ => Some(EdgeOff::Ratio([0.25, 0.5, 0.75][(off / 7) as usize % 3])),
            };
            Case { kind_a, kind_b, a, b, start, end, conn, corner_offset, as_polyline: matches!(conn, 1 | 2) && off % 3 == 0 }
        })
        .boxed()
}

/// the 4x4 start/end direction table, enumerated exhaustively for corner polylines over several placements
fn direction_table() -> Vec<Case> {
    let mut v = Vec::new();
    let a = [0.0, 0.0, 10.0, 6.0];
    for (bx, by) in [(30.0, 20.0), (-30.0, 20.0), (30.0, -20.0), (-30.0, -20.0), (30.0, 1.0), (2.0, 25.0), (4.0, 2.0), (0.0, 0.0)] {
        for s in gen::EDGES {
            for e in gen::EDGES {
                for off in [None, Some(EdgeOff::Abs(2.0)), Some(EdgeOff::Ratio(0.25))] {
                    v.push(Case { kind_a: 0, kind_b: 0, a, b: [bx, by, 8.0, 5.0], start: EndSpec::Loc(s.to_string()), end: EndSpec::Loc(e.to_string()), conn: 3, corner_offset: off, as_polyline: false });
                }
            }
        }
    }
    v
}

// --------------------------------------------------------------------------- oracle

fn candidates(b: &BBox, conn: u8) -> Vec<(f64, f64)> {
    let mids_h = vec![b.loc("l"), b.loc("r")];
    let mids_v = vec![b.loc("t"), b.loc("b")];
    match conn {
        1 => mids_h,
        2 => mids_v,
        3 => vec![b.loc("t"), b.loc("r"), b.loc("b"), b.loc("l")],
        _ => vec![b.loc("t"), b.loc("b"), b.loc("l"), b.loc("r"), b.loc("tl"), b.loc("bl"), b.loc("tr"), b.loc("br")],
    }
}

fn dist(p: (f64, f64), q: (f64, f64)) -> f64 {
    ((p.0 - q.0).powi(2) + (p.1 - q.1).powi(2)).sqrt()
}

fn near(p: (f64, f64), q: (f64, f64)) -> bool {
    dist(p, q) <= 0.004
}

fn fixed_point(e: &EndSpec, b: &BBox) -> Option<(f64, f64)> {
    match e {
        EndSpec::El => None,
        EndSpec::Loc(l) => Some(b.loc(l)),
        EndSpec::Edge(ed, off) => Some(b.edge(ed, *off)),
        EndSpec::Lit(x, y) => Some((*x, *y)),
    }
}

/// which edge of `b` is point `p` the mid-point / a point of (t r b l), if any
fn edge_of(p: (f64, f64), b: &BBox) -> Vec<char> {
    let mut v = Vec::new();
    let eps = 0.004;
    if (p.1 - b.y1).abs() <= eps && p.0 >= b.x1 - eps && p.0 <= b.x2 + eps {
        v.push('t');
    }
    if (p.1 - b.y2).abs() <= eps && p.0 >= b.x1 - eps && p.0 <= b.x2 + eps {
        v.push('b');
    }
    if (p.0 - b.x1).abs() <= eps && p.1 >= b.y1 - eps && p.1 <= b.y2 + eps {
        v.push('l');
    }
    if (p.0 - b.x2).abs() <= eps && p.1 >= b.y1 - eps && p.1 <= b.y2 + eps {
        v.push('r');
    }
    v
}

impl Property for C13 {
    type Case = Case;
    fn id(&self) -> &'static str {
        "C13"
    }
    fn rule(&self) -> String {
        "cases = two shapes (rect / circle / ellipse / group) with B placed relative to A in all nine sectors and overlapping, touching, nested, same-corner, partially overlapping arrangements; endpoint specs {#id, #id@loc (9 locations), #id@edge:offset (absolute, negative, percent), literal 'x y'} on each end; kinds {straight line, line edge-type h, v, corner polyline with no / absolute / percent corner-offset}; \
         plus the 4x4 start/end edge table x 8 placements x 3 corner-offsets enumerated exhaustively for corner polylines. \
         Oracle (from the output, against the referenced elements' own output geometry): an endpoint with a named location or literal equals that point; otherwise it is one of the candidate locations of the referenced bounding box (edge mid-points, plus corners for straight lines) and the connector realises the minimal distance over all candidate choices (ties accepted); \
         h / v lines are axis-parallel through (max(lo)+min(hi))/2 of the two extents on the other axis and end on the facing edges; corner polylines have only axis-parallel segments, the first leaving and the last entering perpendicular to the edge the endpoint lies on; start, end, edge-type and corner-offset are absent from the output. \
         Non-trivial = not the plain 'B to the right of A, no locations, straight line' arrangement; distinct by hash of the case."
            .into()
    }
    fn assumptions(&self) -> Vec<String> {
        vec![
            "named locations are not generated on h/v connectors (the statement's 'named location' and 'middle of the overlap' clauses conflict there), corner locations and literal endpoints are not generated on corner polylines (no edge, hence no direction)".into(),
            "a percent corner-offset on a U-shaped route is rejected by design ('Corner type requires absolute offset'): such failures are skipped".into(),
        ]
    }
    fn families(&self, tier: Tier) -> Vec<Family<Case>> {
        vec![Family::random("connectors", tier.n(48_000, 750_000), fam_connectors), Family::enumerated("direction-table", direction_table())]
    }
    fn judge(&self, case: &Case, _strict: bool) -> Verdict {
        let doc = case_xml(case);
        let out = match transform(&doc, &Cfg::plain()) {
            Outcome::Ok(o) => o,
            Outcome::Err(k, m) => {
                if case.conn == 3 && matches!(case.corner_offset, Some(EdgeOff::Ratio(_))) && m.contains("absolute offset") {
                    return Verdict::skip("percent-offset-on-u-shape-rejected-by-design", vec![], 1);
                }
                return Verdict::fail(format!("c13:transform-failed:{k}"), format!("{}\n--- document ---\n{doc}", crate::run::trunc(&m, 1200)), vec![], 1);
            }
            Outcome::Panic(l, m) => return Verdict::fail(format!("c13:panic:{l}"), m, vec![], 1),
        };
        let tree = match sxml::parse_tree(&out) {
            Ok(t) => t,
            Err(e) => return Verdict::fail("c13:output-illformed", e.to_string(), vec![], 1),
        };
        let ctx = || format!("--- document ---\n{doc}\n--- output ---\n{out}");
        let el = match tree.find_id("conn") {
            Some(e) => e,
            None => return Verdict::fail("c13:connector-missing", ctx(), vec![], 1),
        };
        for a in ["start", "end", "edge-type", "corner-offset"] {
            if el.has_attr(a) {
                return Verdict::fail(format!("c13:leftover-attribute:{a}"), ctx(), vec![], 1);
            }
        }
        // boxes of the referenced elements as they appear in the output (cross-checked with the intended ones)
        let box_of = |id: &str, kind: u8, want: &[f64; 4]| -> Option<BBox> {
            let e = tree.find_id(id)?;
            let b = if e.name == "g" {
                let kids: Vec<BBox> = e.child_elements().filter_map(out_bbox).collect();
                let mut u = *kids.first()?;
                for k in &kids {
                    u = u.union(k);
                }
                u
            } else if e.name == "use" {
                // a <use> carries only its position; its size is that of the template it instantiates
                // (placed at its own x / y relative to where the template stands)
                let (tx, ty) = tree.find_id(&format!("t{id}")).map(|t| (fnum0(t, "x"), fnum0(t, "y"))).unwrap_or((0.0, 0.0));
                BBox::xywh(fnum0(e, "x") + tx, fnum0(e, "y") + ty, want[2], want[3])
            } else {
                out_bbox(e)?
            };
            if b.approx(&shape_box(kind, want), 2) {
                Some(b)
            } else {
                None
            }
        };
        let (ba, bb) = match (box_of("a", case.kind_a, &case.a), box_of("b", case.kind_b, &case.b)) {
            (Some(a), Some(b)) => (a, b),
            _ => return Verdict::skip("shape-geometry-not-as-intended-is-C11", vec![], 1),
        };
        let pts: Vec<(f64, f64)> = match el.name.as_str() {
            "line" => vec![(fnum0(el, "x1"), fnum0(el, "y1")), (fnum0(el, "x2"), fnum0(el, "y2"))],
            "polyline" => parse_points(el.attr("points").unwrap_or("")),
            other => return Verdict::fail("c13:unexpected-element", format!("connector became <{other}>\n{}", ctx()), vec![], 1),
        };
        if pts.len() < 2 {
            return Verdict::fail("c13:no-points", ctx(), vec![], 1);
        }
        let (p1, p2) = (pts[0], *pts.last().unwrap());
        let f1 = fixed_point(&case.start, &ba);
        let f2 = fixed_point(&case.end, &bb);
        let kind = ["straight", "h", "v", "corner"][case.conn as usize % 4];
        match case.conn {
            1 | 2 => {
                // both endpoints share the coordinate through the middle of the overlap (element-to-element only)
                let horizontal = case.conn == 1;
                let (o1, o2) = if horizontal { (p1.1, p2.1) } else { (p1.0, p2.0) };
                if (o1 - o2).abs() > 0.004 {
                    return Verdict::fail(format!("c13:{kind}:not-axis-parallel"), format!("endpoints {p1:?} {p2:?}\n{}", ctx()), vec![], 1);
                }
                match (&case.start, &case.end) {
                    (EndSpec::El, EndSpec::El) => {
                        let mid = if horizontal { (ba.y1.max(bb.y1) + ba.y2.min(bb.y2)) / 2.0 } else { (ba.x1.max(bb.x1) + ba.x2.min(bb.x2)) / 2.0 };
                        if (o1 - mid).abs() > 0.004 {
                            return Verdict::fail(format!("c13:{kind}:not-through-overlap-middle"), format!("shared coordinate {o1}, middle of overlap {mid}\n{}", ctx()), vec![], 1);
                        }
                        // ends on facing edges: along-axis coordinates realise the minimal candidate distance
                        let ca = candidates(&ba, case.conn);
                        let cb = candidates(&bb, case.conn);
                        let best = ca.iter().flat_map(|p| cb.iter().map(move |q| dist(*p, *q))).fold(f64::INFINITY, f64::min);
                        let (a1, a2) = if horizontal { (p1.0, p2.0) } else { (p1.1, p2.1) };
                        let ok = ca.iter().any(|p| cb.iter().any(|q| {
                            let (pa, qa) = if horizontal { (p.0, q.0) } else { (p.1, q.1) };
                            (pa - a1).abs() <= 0.004 && (qa - a2).abs() <= 0.004 && dist(*p, *q) <= best + 0.004
                        }));
                        if !ok {
                            return Verdict::fail(format!("c13:{kind}:not-on-closest-edges"), format!("endpoints {p1:?} {p2:?}; minimal candidate distance {best}\n{}", ctx()), vec![], 1);
                        }
                    }
                    _ => {
                        // a literal end: the line runs through the literal's coordinate or the start's (statement: literal used verbatim)
                        if let Some(f) = f1 {
                            let want = if horizontal { f.0 } else { f.1 };
                            let got = if horizontal { p1.0 } else { p1.1 };
                            if (want - got).abs() > 0.004 {
                                return Verdict::fail(format!("c13:{kind}:literal-start-not-verbatim"), format!("{p1:?} vs literal {f:?}\n{}", ctx()), vec![], 1);
                            }
                        }
                        if let Some(f) = f2 {
                            let want = if horizontal { f.0 } else { f.1 };
                            let got = if horizontal { p2.0 } else { p2.1 };
                            if (want - got).abs() > 0.004 {
                                return Verdict::fail(format!("c13:{kind}:literal-end-not-verbatim"), format!("{p2:?} vs literal {f:?}\n{}", ctx()), vec![], 1);
                            }
                        }
                    }
                }
            }
            _ => {
                // endpoints: fixed ones verbatim, free ones minimal over the candidate sets
                if let Some(f) = f1 {
                    if !near(p1, f) {
                        return Verdict::fail(format!("c13:{kind}:start-not-at-given-point"), format!("start {p1:?}, specified {f:?}\n{}", ctx()), vec![], 1);
                    }
                }
                if let Some(f) = f2 {
                    if !near(p2, f) {
                        return Verdict::fail(format!("c13:{kind}:end-not-at-given-point"), format!("end {p2:?}, specified {f:?}\n{}", ctx()), vec![], 1);
                    }
                }
                let ca = candidates(&ba, case.conn);
                let cb = candidates(&bb, case.conn);
                match (f1, f2) {
                    (None, None) => {
                        let best = ca.iter().flat_map(|p| cb.iter().map(move |q| dist(*p, *q))).fold(f64::INFINITY, f64::min);
                        if !ca.iter().any(|p| near(*p, p1)) || !cb.iter().any(|q| near(*q, p2)) {
                            return Verdict::fail(format!("c13:{kind}:endpoint-not-a-candidate-location"), format!("{p1:?} {p2:?}\n{}", ctx()), vec![], 1);
                        }
                        if dist(p1, p2) > best + 0.006 {
                            return Verdict::fail(format!("c13:{kind}:not-minimal-distance"), format!("connector length {} but candidates allow {best}\n{}", dist(p1, p2), ctx()), vec![], 1);
                        }
                    }
                    (Some(f), None) => {
                        let best = cb.iter().map(|q| dist(f, *q)).fold(f64::INFINITY, f64::min);
                        if !cb.iter().any(|q| near(*q, p2)) {
                            return Verdict::fail(format!("c13:{kind}:endpoint-not-a-candidate-location"), format!("end {p2:?}\n{}", ctx()), vec![], 1);
                        }
                        if dist(f, p2) > best + 0.006 {
                            return Verdict::fail(format!("c13:{kind}:not-minimal-distance"), format!("end {p2:?} is {} from the start point, {best} possible\n{}", dist(f, p2), ctx()), vec![], 1);
                        }
                    }
                    (None, Some(f)) => {
                        let best = ca.iter().map(|q| dist(f, *q)).fold(f64::INFINITY, f64::min);
                        if !ca.iter().any(|q| near(*q, p1)) {
                            return Verdict::fail(format!("c13:{kind}:endpoint-not-a-candidate-location"), format!("start {p1:?}\n{}", ctx()), vec![], 1);
                        }
                        if dist(f, p1) > best + 0.006 {
                            return Verdict::fail(format!("c13:{kind}:not-minimal-distance"), format!("start {p1:?} is {} from the end point, {best} possible\n{}", dist(f, p1), ctx()), vec![], 1);
                        }
                    }
                    (Some(_), Some(_)) => {}
                }
                if case.conn == 3 {
                    // axis-parallel segments only
                    for w in pts.windows(2) {
                        let (dx, dy) = ((w[0].0 - w[1].0).abs(), (w[0].1 - w[1].1).abs());
                        if dx > 0.004 && dy > 0.004 {
                            return Verdict::fail("c13:corner:segment-not-axis-parallel", format!("segment {:?} -> {:?}\n{}", w[0], w[1], ctx()), vec![], 1);
                        }
                    }
                    // first leaves / last enters perpendicular to its edge
                    let perpendicular = |p: (f64, f64), q: (f64, f64), bx: &BBox, spec: &EndSpec| -> bool {
                        let edges: Vec<char> = match spec {
                            EndSpec::Loc(l) | EndSpec::Edge(l, _) => vec![l.chars().next().unwrap()],
                            _ => edge_of(p, bx),
                        };
                        let (dx, dy) = ((p.0 - q.0).abs(), (p.1 - q.1).abs());
                        if dx <= 0.004 && dy <= 0.004 {
                            return true; // zero-length segment
                        }
                        edges.iter().any(|e| match e {
                            't' | 'b' => dx <= 0.004,
                            _ => dy <= 0.004,
                        })
                    };
                    if !perpendicular(pts[0], pts[1], &ba, &case.start) {
                        return Verdict::fail("c13:corner:first-segment-not-perpendicular", format!("first segment {:?} -> {:?}\n{}", pts[0], pts[1], ctx()), vec![], 1);
                    }
                    let n = pts.len();
                    if !perpendicular(pts[n - 1], pts[n - 2], &bb, &case.end) {
                        return Verdict::fail("c13:corner:last-segment-not-perpendicular", format!("last segment {:?} -> {:?}\n{}", pts[n - 2], pts[n - 1], ctx()), vec![], 1);
                    }
                    // Z-shaped routes (two bends between edges that face opposite ways along one axis): the bend lies
                    // "50% along the path between the connected elements" unless corner-offset says otherwise - a
                    // percentage of the way from start to end, an absolute distance from the start, or (negative)
                    // back from the end
                    let edge_char = |p: (f64, f64), bx: &BBox, spec: &EndSpec| -> Option<char> {
                        match spec {
                            EndSpec::Loc(l) | EndSpec::Edge(l, _) => l.chars().next(),
                            _ => {
                                let e = edge_of(p, bx);
                                if e.len() == 1 { Some(e[0]) } else { None }
                            }
                        }
                    };
                    if n == 4 {
                        if let (Some(es), Some(ee)) = (edge_char(pts[0], &ba, &case.start), edge_char(pts[3], &bb, &case.end)) {
                            let horizontal = matches!((es, ee), ('l', 'r') | ('r', 'l'));
                            let vertical = matches!((es, ee), ('t', 'b') | ('b', 't'));
                            let (s00, e00) = if horizontal { (pts[0].0, pts[3].0) } else { (pts[0].1, pts[3].1) };
                            // (coincident start and end coordinates have no direction: not judged)
                            if (horizontal || vertical) && (s00 - e00).abs() > 0.01 {
                                let (s0, e0, got) = if horizontal { (pts[0].0, pts[3].0, pts[1].0) } else { (pts[0].1, pts[3].1, pts[1].1) };
                                let dirn = if e0 < s0 { -1.0 } else { 1.0 };
                                let want = match case.corner_offset {
                                    None => (s0 + e0) / 2.0,
                                    Some(EdgeOff::Ratio(r)) => s0 + r * (e0 - s0),
                                    Some(EdgeOff::Abs(a)) if a >= 0.0 => s0 + a * dirn,
                                    Some(EdgeOff::Abs(a)) => e0 + a * dirn,
                                };
                                if (got - want).abs() > 0.004 {
                                    return Verdict::fail(
                                        "c13:corner:bend-misplaced",
                                        format!("Z-shaped route from {} = {s0} to {e0}: bend at {got}, corner-offset {:?} puts it at {want}\n{}", if horizontal { "x" } else { "y" }, case.corner_offset, ctx()),
                                        vec![],
                                        1,
                                    );
                                }
                            }
                        }
                    }
                }
            }
        }
        let plain = case.conn == 0 && matches!(case.start, EndSpec::El) && matches!(case.end, EndSpec::El) && case.b[0] >= case.a[0] + case.a[2] && (case.b[1] - case.a[1]).abs() < 1e-9;
        let mut labels = vec![format!("kind:{kind}")];
        labels.push(format!("start:{}", match case.start { EndSpec::El => "el", EndSpec::Loc(_) => "loc", EndSpec::Edge(..) => "edge", EndSpec::Lit(..) => "lit" }));
        labels.push(format!("end:{}", match case.end { EndSpec::El => "el", EndSpec::Loc(_) => "loc", EndSpec::Edge(..) => "edge", EndSpec::Lit(..) => "lit" }));
        Verdict::pass(!plain, labels, 1)
    }
}
