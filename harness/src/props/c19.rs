//! C19 Shape text reaches the output verbatim and at the requested anchor.

use crate::engine::{Family, Property, Tier, Verdict};
use crate::gen::{self, XEl, X};
use crate::model::{close, fnum0, BBox, EdgeOff};
use crate::run::{num, transform, Cfg, Outcome};
use crate::sxml::{self, Element};
use proptest::collection::vec;
use proptest::prelude::*;
use serde::{Deserialize, Serialize};

pub struct C19;

#[derive(Clone, Debug, Serialize, Deserialize)]
pub enum Piece {
    Lit(String),
    /// defined variable (index into VARS)
    Var(usize, bool),
    Undef,
    /// {{a + b}} with known result
    Expr(i32, i32),
    /// escaped newline: backslash n
    Nl,
    /// literal newline character
    NlLit,
    /// k >= 2 backslashes and an n: the last backslash escapes the escape, the text shows k - 1 backslashes and the n
    EscNl(u8),
    /// "${" that is never closed (generated as the last piece only): plain text
    OpenBrace,
}

#[derive(Clone, Debug, Serialize, Deserialize)]
pub struct Case {
    /// 0 rect 1 circle 2 ellipse 3 line 4 polyline 5 polygon 6 point 7 box 8 text
    pub shape: u8,
    pub g: [f64; 4],
    /// 0 text attribute, 1 element content, 2 CDATA content
    pub carrier: u8,
    pub pieces: Vec<Piece>,
    pub loc: Option<(String, Option<EdgeOff>)>,
    /// 0 default, 1 d-text-outside, 2 d-text-inside
    pub side: u8,
    pub vertical: bool,
    pub pre: bool,
    pub offset: Option<f64>,
    /// 0 none, 1 text-dx/dy, 2 text-dxy two values, 3 text-dxy one value
    pub delta: u8,
    pub d: [f64; 2],
    pub lsp: bool,
    pub text_style: bool,
    pub extras: u8,
    /// (text shape with an explicit text-loc only) 1..=9: the element is positioned at that location of an anchor rect,
    /// xy="#z@loc", instead of by coordinates
    #[serde(default)]
    pub anchored: u8,
    /// bit0: the class list is given through a variable (class="$cls"); bit1: (content carrier) the content is character
    /// data, a CDATA section and character data again; bit2: (text shape) positioned by x / y given as expressions
    #[serde(default)]
    pub mix: u8,
}

const VARS: [(&str, &str); 3] = [("who", "World"), ("n", "42"), ("sym", "a&b<c>")];

fn piece() -> impl Strategy<Value = Piece> {
    prop_oneof![
        6 => gen::hostile_inert(3).prop_map(|s| Piece::Lit(s.replace('\\', "/").replace('$', "S").replace('{', "(").replace('}', ")"))),
        3 => "[a-zA-Z0-9 .,!?:;'\"&<>-]{1,8}".prop_map(Piece::Lit),
        2 => (0..VARS.len(), any::<bool>()).prop_map(|(i, b)| Piece::Var(i, b)),
        1 => Just(Piece::Undef),
        1 => (-9..10i32, -9..10i32).prop_map(|(a, b)| Piece::Expr(a, b)),
        2 => Just(Piece::Nl),
        1 => Just(Piece::NlLit),
        1 => Just(Piece::Lit("  spaced  out  ".into())),
        1 => (2u8..5).prop_map(Piece::EscNl),
        1 => Just(Piece::OpenBrace),
    ]
}

fn fam_cases(_t: Tier) -> BoxedStrategy<Case> {
    (
        (0u8..9, [gen::nice(40).boxed(), gen::nice(40).boxed(), gen::nice_pos(30).boxed(), gen::nice_pos(20).boxed()], 0u8..3, vec(piece(), 0..6)),
        (
            prop::option::of(prop_oneof![
                3 => (0..9usize).prop_map(|i| (gen::LOCS[i].to_string(), None)),
                1 => (0..4usize, prop_oneof![gen::nice_pos(5).prop_map(EdgeOff::Abs), gen::nice_pos(5).prop_map(|v| EdgeOff::Abs(-v)), prop_oneof![Just(0.0), Just(0.25), Just(0.5), Just(1.0)].prop_map(EdgeOff::Ratio)]).prop_map(|(i, o)| (gen::EDGES[i].to_string(), Some(o))),
            ]),
            0u8..3,
            prop::bool::weighted(0.2),
            prop::bool::weighted(0.2),
            prop::option::of(prop_oneof![Just(0.0), Just(2.0), Just(3.5), Just(-1.0)]),
            0u8..4,
            [gen::nice(6).boxed(), gen::nice(6).boxed()],
            any::<bool>(),
            any::<bool>(),
            any::<u8>(),
            0u8..24,
            0u8..8,
        ),
    )
        .prop_map(|((shape, g, carrier, pieces), (loc, side, vertical, pre, offset, delta, d, lsp, text_style, extras, anchored, mix))| {
            let anchored = if shape % 9 == 8 && loc.is_some() && anchored <= 9 { anchored } else { 0 };
            // the svgdx-only pseudo elements <point> and <box> take text through the attribute only (content form is not documented for them)
            let carrier = if matches!(shape % 9, 6 | 7) { 0 } else { carrier };
            // an unclosed "${" is plain text as long as no "}" follows it: keep one, as the last piece
            let mut pieces = pieces;
            if let Some(i) = pieces.iter().position(|p| matches!(p, Piece::OpenBrace)) {
                pieces.retain(|p| !matches!(p, Piece::OpenBrace));
                let _ = i;
                pieces.push(Piece::OpenBrace);
            }
            Case { shape, g, carrier, pieces, loc, side, vertical, pre, offset, delta, d, lsp, text_style, extras, anchored, mix }
        })
        .boxed()
}

// --------------------------------------------------------------------------- rendering and reference

fn author_text(c: &Case) -> String {
    let mut s = String::new();
    for p in &c.pieces {
        match p {
            Piece::Lit(l) => s.push_str(l),
            Piece::Var(i, braces) => s.push_str(&if *braces { format!("${{{}}}", VARS[*i].0) } else { format!("${} ", VARS[*i].0) }),
            Piece::Undef => s.push_str("$nosuchvar"),
            Piece::Expr(a, b) => s.push_str(&format!("{{{{{a} + {b}}}}}")),
            Piece::Nl => s.push_str("\\n"),
            Piece::NlLit => s.push('\n'),
            Piece::EscNl(k) => {
                s.push_str(&"\\".repeat((*k).clamp(2, 5) as usize));
                s.push('n');
            }
            Piece::OpenBrace => s.push_str("cost ${5"),
        }
    }
    s
}

/// the author's text cut after its first and second piece, where both outer parts hold more than white space (white space
/// alone next to a CDATA section is formatting) and the middle part can stand in a CDATA section
fn mixed_split(c: &Case) -> Option<(String, String, String)> {
    if c.pieces.len() < 3 {
        return None;
    }
    let part = |ps: &[Piece]| author_text(&Case { pieces: ps.to_vec(), ..c.clone() });
    let (a, b, z) = (part(&c.pieces[..1]), part(&c.pieces[1..2]), part(&c.pieces[2..]));
    if a.trim().is_empty() || z.trim().is_empty() || b.contains("]]>") || (b.ends_with("]]") && z.starts_with('>')) || (b.ends_with(']') && z.starts_with("]>")) {
        return None;
    }
    Some((a, b, z))
}

fn expected_text(c: &Case) -> String {
    let mut s = String::new();
    for p in &c.pieces {
        match p {
            Piece::Lit(l) => s.push_str(l),
            Piece::Var(i, braces) => {
                s.push_str(VARS[*i].1);
                if !*braces {
                    s.push(' ');
                }
            }
            Piece::Undef => s.push_str("$nosuchvar"),
            Piece::Expr(a, b) => s.push_str(&format!("{}", a + b)),
            Piece::Nl | Piece::NlLit => s.push('\n'),
            Piece::EscNl(k) => {
                s.push_str(&"\\".repeat((*k).clamp(2, 5) as usize - 1));
                s.push('n');
            }
            Piece::OpenBrace => s.push_str("cost ${5"),
        }
    }
    s
}

fn shape_name(k: u8) -> &'static str {
    ["rect", "circle", "ellipse", "line", "polyline", "polygon", "point", "box", "text"][k as usize % 9]
}

fn shape_box(c: &Case) -> BBox {
    let [x, y, w, h] = c.g;
    match c.shape % 9 {
        1 => BBox::new(x - w / 2.0, y - w / 2.0, x + w / 2.0, y + w / 2.0),
        2 => BBox::new(x - w / 2.0, y - h / 2.0, x + w / 2.0, y + h / 2.0),
        3 => BBox::new(x.min(x + w), y.min(y - h), x.max(x + w), y.max(y - h)),
        4 | 5 => BBox::new(x, y, x + w, y + h),
        6 | 8 => BBox::new(x, y, x, y),
        _ => BBox::xywh(x, y, w, h),
    }
}

const AUTHOR_CLASSES: [&str; 4] = ["mine", "d-fill-lightblue", "d-softshadow", "d-text-bold"];

pub fn case_xml(c: &Case) -> String {
    let [x, y, w, h] = c.g;
    let mut e = XEl::new(shape_name(c.shape)).a("id", "s");
    match c.shape % 9 {
        0 | 7 => {
            e.set("xy", format!("{} {}", num(x), num(y)));
            e.set("wh", format!("{} {}", num(w), num(h)));
        }
        1 => {
            e.set("cxy", format!("{} {}", num(x), num(y)));
            e.set("r", num(w / 2.0));
        }
        2 => {
            e.set("cxy", format!("{} {}", num(x), num(y)));
            e.set("rxy", format!("{} {}", num(w / 2.0), num(h / 2.0)));
        }
        3 => {
            e.set("xy1", format!("{} {}", num(x), num(y)));
            e.set("xy2", format!("{} {}", num(x + w), num(y - h)));
        }
        4 | 5 => e.set("points", format!("{} {} {} {} {} {}", num(x), num(y), num(x + w), num(y + h / 2.0), num(x + w / 2.0), num(y + h))),
        8 if c.anchored >= 1 => e.set("xy", format!("#z@{}", gen::LOCS[(c.anchored as usize - 1) % 9])),
        // a text element placed by x / y, each an expression (its content is svgdx text like any other)
        8 if c.mix & 4 != 0 => {
            e.set("x", format!("{{{{{} * 2}}}}", num(x / 2.0)));
            e.set("y", format!("{{{{{} + 1}}}}", num(y - 1.0)));
        }
        _ => e.set("xy", format!("{} {}", num(x), num(y))),
    }
    // unrelated presentation attributes and classes that must stay on the shape
    if c.extras & 1 != 0 {
        e.set("fill", "none");
        e.set("data-k", "v & w");
    }
    if c.extras & 2 != 0 {
        e.set("style", "stroke-width: 2");
    }
    let mut classes: Vec<&str> = Vec::new();
    for (i, cl) in AUTHOR_CLASSES.iter().enumerate() {
        if c.extras & (4 << i) != 0 {
            classes.push(cl);
        }
    }
    match c.side {
        1 => classes.push("d-text-outside"),
        2 => classes.push("d-text-inside"),
        _ => {}
    }
    if c.vertical {
        classes.push("d-text-vertical");
    }
    if c.pre {
        classes.push("d-text-pre");
    }
    let class_var = c.mix & 1 != 0 && !classes.is_empty();
    if class_var {
        e.set("class", "$cls");
    } else if !classes.is_empty() {
        e.set("class", classes.join(" "));
    }
    if let Some((l, off)) = &c.loc {
        e.set(
            "text-loc",
            match off {
                None => l.clone(),
                Some(EdgeOff::Abs(a)) => format!("{l}:{}", num(*a)),
                Some(EdgeOff::Ratio(r)) => format!("{l}:{}%", num(r * 100.0)),
            },
        );
    }
    if let Some(o) = c.offset {
        e.set("text-offset", num(o));
    }
    match c.delta {
        1 => {
            e.set("text-dx", num(c.d[0]));
            e.set("text-dy", num(c.d[1]));
        }
        2 => e.set("text-dxy", format!("{} {}", num(c.d[0]), num(c.d[1]))),
        3 => e.set("text-dxy", num(c.d[0])),
        _ => {}
    }
    if c.lsp {
        e.set("text-lsp", "1.5");
    }
    if c.text_style {
        e.set("text-style", "font-style: italic; fill: \"navy\"");
    }
    let t = author_text(c);
    match c.carrier % 3 {
        0 => e.set("text", t),
        // element content, partly spelled with numeric character references (every non-ASCII character and some others)
        1 if c.extras & 0x80 != 0 => {
            let mut raw = String::new();
            for (i, ch) in t.chars().enumerate() {
                match ch {
                    '&' => raw.push_str("&amp;"),
                    '<' => raw.push_str("&lt;"),
                    '>' => raw.push_str("&gt;"),
                    c2 if !c2.is_ascii() || (c2.is_ascii_alphanumeric() && i % 3 == 0) => {
                        if i % 2 == 0 {
                            raw.push_str(&format!("&#{};", c2 as u32));
                        } else {
                            raw.push_str(&format!("&#x{:X};", c2 as u32));
                        }
                    }
                    c2 => raw.push(c2),
                }
            }
            e.kids.push(X::Raw(raw));
        }
        // character data, a CDATA section, character data: all of it is the content
        1 if c.mix & 2 != 0 && mixed_split(c).is_some() => {
            let (a, b, z) = mixed_split(c).unwrap();
            e.kids.push(X::Text(a));
            e.kids.push(X::Raw(format!("<![CDATA[{b}]]>")));
            e.kids.push(X::Text(z));
        }
        1 => e.kids.push(X::Text(t)),
        _ => e.kids.push(X::Raw(format!("<![CDATA[{}]]>", t.replace("]]>", "]] >")))),
    }
    let mut vars = XEl::new("var").a(VARS[0].0, VARS[0].1).a(VARS[1].0, VARS[1].1).a(VARS[2].0, VARS[2].1);
    if class_var {
        vars.set("cls", classes.join(" "));
    }
    if c.shape % 9 == 8 && c.anchored >= 1 {
        // the anchor rect lies so that its chosen location is the point (x, y)
        let l = gen::LOCS[(c.anchored as usize - 1) % 9];
        let fx = if l.contains('l') { 0.0 } else if l.contains('r') { 1.0 } else { 0.5 };
        let fy = if l.contains('t') { 0.0 } else if l.contains('b') { 1.0 } else { 0.5 };
        let z = XEl::new("rect").a("id", "z").a("xy", format!("{} {}", num(x - fx * 10.0), num(y - fy * 6.0))).a("wh", "10 6");
        return gen::svg_root(vec![vars, z, e]).to_xml();
    }
    gen::svg_root(vec![vars, e]).to_xml()
}

fn loc_point(b: &BBox, loc: &Option<(String, Option<EdgeOff>)>) -> (f64, f64) {
    match loc {
        None => b.loc("c"),
        Some((l, None)) => b.loc(l),
        Some((l, Some(o))) => b.edge(l, *o),
    }
}

/// (is_top, is_bottom, is_left, is_right)
fn loc_sides(loc: &Option<(String, Option<EdgeOff>)>) -> (bool, bool, bool, bool) {
    match loc {
        None => (false, false, false, false),
        Some((l, Some(_))) => (l == "t", l == "b", l == "l", l == "r"),
        Some((l, None)) => (l.starts_with('t'), l.starts_with('b') && l != "c", l == "l" || l.ends_with('l') && l.len() == 2, l == "r" || l.ends_with('r') && l.len() == 2),
    }
}

fn text_lines(el: &Element, vertical: bool, pre: bool) -> Vec<String> {
    let tspans: Vec<&Element> = el.child_elements().filter(|e| e.name == "tspan").collect();
    let fix = |s: String| -> String {
        let s = if s == "\u{200B}" { String::new() } else { s };
        if pre {
            s.replace('\u{A0}', " ")
        } else {
            s
        }
    };
    if tspans.is_empty() {
        vec![fix(el.text_content())]
    } else {
        let mut v: Vec<String> = tspans.iter().map(|t| fix(t.text_content())).collect();
        if vertical {
            v.reverse();
        }
        v
    }
}

impl Property for C19 {
    type Case = Case;
    fn id(&self) -> &'static str {
        "C19"
    }
    fn rule(&self) -> String {
        "cases = one shape {rect, circle, ellipse, line, polyline, polygon, point, box, text} on a 1/8 grid carrying text through {text attribute, element content, CDATA content}; the string is 0-5 pieces from {hostile characters within XML Char (& < > quotes, non-BMP, combining, ZWSP, NBSP), plain runs, defined variables ($name and ${name}, one holding XML specials), an undefined $name, {{a + b}} expressions, escaped \\\\n and literal newlines, runs of spaces}; \
         x text-loc (9 locations, 4 edges with absolute / negative / percent offsets, or default) x d-text-outside / d-text-inside / default x d-text-vertical x d-text-pre x text-offset x text-dx/dy/dxy x text-lsp x text-style x unrelated attributes and classes on the shape. \
         Oracle: (fidelity) the unescaped character data of the generated <text> (one line) or of its <tspan>s (one per line of the string; a ZWSP-only tspan is an empty line, NBSP is a space under d-text-pre, order reversed for vertical text) equals the author's string after the reference substitution of variables and expressions; \
         (placement) x, y equal the text-loc point of the shape's bounding box moved inward (outward for line/point/text and with d-text-outside) by text-offset (default 1) plus text-dx/dy, the alignment classes match the inside/outside x location table (with -vertical suffix for vertical text); \
         (shape) the shape keeps its id, non-text attributes and non-text classes, carries no text-* attribute, and point/box emit only the text. \
         Non-trivial = the string contains a special character, a newline, a variable or an expression, or text-loc is not the centre; distinct by hash of the case."
            .into()
    }
    fn assumptions(&self) -> Vec<String> {
        vec![
            "strings contain no backslash other than in \\n and no \\$ escape (undocumented, position dependent); tspan dy/dx arithmetic is not checked".into(),
            "trailing whitespace of a line and a trailing newline are not compared (the writer trims blanks before a newline)".into(),
        ]
    }
    fn families(&self, tier: Tier) -> Vec<Family<Case>> {
        vec![Family::random("shape-text", tier.n(48_000, 900_000), fam_cases)]
    }
    fn judge(&self, c: &Case, _strict: bool) -> Verdict {
        let doc = case_xml(c);
        let out = match transform(&doc, &Cfg::plain()) {
            Outcome::Ok(o) => o,
            Outcome::Err(k, m) => return Verdict::fail(format!("c19:transform-failed:{k}"), format!("{}\n--- document ---\n{doc}", crate::run::trunc(&m, 1200)), vec![], 1),
            Outcome::Panic(l, m) => return Verdict::fail(format!("c19:panic:{l}"), m, vec![], 1),
        };
        let tree = match sxml::parse_tree(&out) {
            Ok(t) => t,
            Err(e) => return Verdict::fail("c19:output-illformed", format!("{e}\n{out}"), vec![], 1),
        };
        let ctx = || format!("--- document ---\n{doc}\n--- output ---\n{out}");
        let name = shape_name(c.shape);
        let carrier = ["attr", "content", "cdata"][c.carrier as usize % 3];
        let all = tree.descendants();
        let texts: Vec<&&Element> = all.iter().filter(|e| e.name == "text").collect();
        // (a CDATA section cannot contain its own terminator: the generator writes it with a space)
        let want = if c.carrier % 3 == 2 { expected_text(c).replace("]]>", "]] >") } else { expected_text(c) };
        // white space alone between the tags of a shape is formatting, not a label (it stays significant inside <text>)
        let want = if c.carrier % 3 != 0 && c.shape % 9 != 8 && author_text(c).trim().is_empty() { String::new() } else { want };
        if want.is_empty() && texts.len() <= 1 && texts.iter().all(|t| t.text_content().trim().is_empty()) {
            // no text given: nothing to place (the shape must still be laid out, which C11 checks)
            if !matches!(name, "point" | "box" | "text") && !all.iter().any(|e| e.attr("id") == Some("s") && !e.has_attr("xy") && !e.has_attr("wh")) {
                return Verdict::fail(format!("c19:shape-missing:{name}"), ctx(), vec![], 1);
            }
            return Verdict::pass(false, vec!["empty-text".into()], 1);
        }
        if texts.len() != 1 {
            return Verdict::fail(format!("c19:text-element-count:{name}:{carrier}"), format!("expected exactly one <text>, found {}\n{}", texts.len(), ctx()), vec![], 1);
        }
        let t = texts[0];
        // ---- fidelity
        let got_lines = text_lines(t, c.vertical, c.pre);
        // text given through the attribute is kept to the last blank; content carriers pass through the XML writer, which trims blanks before a newline
        let strict_ws = c.carrier % 3 == 0 && !(want.lines().count() <= 1 && want.contains('\n'));
        let trim = |s: &str| if strict_ws { s.to_string() } else { s.trim_end().to_string() };
        let want_lines: Vec<String> = {
            let l: Vec<&str> = want.lines().collect();
            if l.len() <= 1 {
                // a single line is emitted as one text node (a trailing newline is insignificant)
                vec![trim(want.trim_end_matches('\n'))]
            } else {
                l.into_iter().map(trim).collect()
            }
        };
        // an author line consisting of a lone ZWSP is indistinguishable from an empty line (which is rendered as a ZWSP)
        let want_lines: Vec<String> = want_lines.into_iter().map(|l| if l == "\u{200B}" { String::new() } else if c.pre { l.replace('\u{A0}', " ") } else { l }).collect();
        let single = want_lines.len() <= 1;
        let got_cmp: Vec<String> = got_lines.iter().map(|s| if single { trim(s.trim_end_matches('\n')) } else { trim(s) }).map(|l| if l == "\u{200B}" { String::new() } else { l }).collect();
        if got_cmp != want_lines {
            let special = if want.contains('\n') { "multiline" } else if want.contains(['&', '<', '>', '"']) { "xml-special" } else { "plain" };
            return Verdict::fail(
                format!("c19:text-not-verbatim:{carrier}:{special}"),
                format!("author's text (after substitution) {want:?}\n  expected lines {want_lines:?}\n  output lines   {got_cmp:?}\n{}", ctx()),
                vec![],
                1,
            );
        }
        // ---- placement
        let b = shape_box(c);
        let outside = match c.side {
            1 => true,
            2 => false,
            _ => matches!(name, "line" | "point" | "text"),
        };
        let (px, py) = loc_point(&b, &c.loc);
        let off = c.offset.unwrap_or(1.0);
        let (top, bottom, left, right) = loc_sides(&c.loc);
        let inward = if outside { -1.0 } else { 1.0 };
        let mut ex = px;
        let mut ey = py;
        if top {
            ey += inward * off;
        }
        if bottom {
            ey -= inward * off;
        }
        if left {
            ex += inward * off;
        }
        if right {
            ex -= inward * off;
        }
        let (ddx, ddy) = match c.delta {
            1 | 2 => (c.d[0], c.d[1]),
            3 => (c.d[0], c.d[0]),
            _ => (0.0, 0.0),
        };
        ex += ddx;
        ey += ddy;
        let (gx, gy) = (fnum0(t, "x"), fnum0(t, "y"));
        if !close(gx, ex, 2) || !close(gy, ey, 2) {
            return Verdict::fail(
                format!("c19:text-misplaced:{}:{}", if outside { "outside" } else { "inside" }, match &c.loc { None => "centre", Some((_, Some(_))) => "edge", Some(_) => "named" }),
                format!("shape box {b:?}, text-loc {:?}, offset {off}, delta ({ddx}, {ddy}), outside={outside}: expected text at ({ex}, {ey}), output has ({gx}, {gy})\n{}", c.loc, ctx()),
                vec![],
                1,
            );
        }
        // alignment classes
        let v = if c.vertical { "-vertical" } else { "" };
        let mut want_classes: Vec<String> = vec!["d-text".into()];
        if top {
            want_classes.push(format!("d-text-{}{v}", if outside { "bottom" } else { "top" }));
        }
        if bottom {
            want_classes.push(format!("d-text-{}{v}", if outside { "top" } else { "bottom" }));
        }
        if left {
            want_classes.push(format!("d-text-{}{v}", if outside { "right" } else { "left" }));
        }
        if right {
            want_classes.push(format!("d-text-{}{v}", if outside { "left" } else { "right" }));
        }
        let align_all = ["top", "bottom", "left", "right"].iter().flat_map(|a| [format!("d-text-{a}"), format!("d-text-{a}-vertical")]).collect::<Vec<_>>();
        for a in &align_all {
            let has = t.has_class(a);
            let should = want_classes.contains(a);
            if has != should {
                return Verdict::fail(
                    format!("c19:alignment-class:{}{}", if outside { "outside" } else { "inside" }, if c.vertical { ":vertical" } else { "" }),
                    format!("text-loc {:?} outside={outside} vertical={}: class '{a}' {} but {}\n  text classes: {:?}\n{}", c.loc, c.vertical, if has { "present" } else { "absent" }, if should { "expected" } else { "not expected" }, t.classes(), ctx()),
                    vec![],
                    1,
                );
            }
        }
        if !t.has_class("d-text") {
            return Verdict::fail("c19:alignment-class:d-text-missing", ctx(), vec![], 1);
        }
        // ---- the shape itself
        let shape_el = all.iter().find(|e| e.attr("id") == Some("s") && e.name != "text");
        match (name, shape_el) {
            ("point" | "box", Some(_)) => return Verdict::fail("c19:phantom-shape-rendered", ctx(), vec![], 1),
            ("point" | "box" | "text", _) => {}
            (_, None) => return Verdict::fail(format!("c19:shape-missing:{name}"), ctx(), vec![], 1),
            (_, Some(s)) => {
                for (k, _) in &s.attrs {
                    if k.starts_with("text") {
                        return Verdict::fail(format!("c19:shape-keeps-text-attribute:{k}"), ctx(), vec![], 1);
                    }
                }
                if c.extras & 1 != 0 && (s.attr("fill") != Some("none") || s.attr("data-k") != Some("v & w")) {
                    return Verdict::fail("c19:shape-attribute-lost", ctx(), vec![], 1);
                }
                if c.extras & 2 != 0 && s.attr("style") != Some("stroke-width: 2") {
                    return Verdict::fail("c19:shape-style-changed", format!("style must stay on the shape (text-style is for the text)\n{}", ctx()), vec![], 1);
                }
                for (i, cl) in AUTHOR_CLASSES.iter().enumerate() {
                    let given = c.extras & (4 << i) != 0;
                    let expect_on_shape = given && !cl.starts_with("d-text-");
                    if s.has_class(cl) != expect_on_shape {
                        return Verdict::fail(format!("c19:shape-class:{cl}"), format!("class '{cl}' on shape: {} (expected {expect_on_shape})\n{}", s.has_class(cl), ctx()), vec![], 1);
                    }
                }
                if s.classes().iter().any(|c| c.starts_with("d-text")) {
                    return Verdict::fail("c19:shape-keeps-text-class", ctx(), vec![], 1);
                }
            }
        }
        // svgdx's own text attributes are instructions, not SVG: none of them may be left on the text element either
        for k in ["text", "text-lsp", "text-style", "text-loc", "text-offset", "text-dx", "text-dy", "text-dxy"] {
            if t.has_attr(k) {
                return Verdict::fail(format!("c19:text-element-keeps-svgdx-attribute:{k}"), ctx(), vec![], 1);
            }
        }
        if c.text_style && t.attr("style") != Some("font-style: italic; fill: \"navy\"") {
            return Verdict::fail("c19:text-style-not-applied", ctx(), vec![], 1);
        }
        let nontrivial = want.contains(['&', '<', '>', '"', '\n']) || !want.is_ascii() || c.pieces.iter().any(|p| matches!(p, Piece::Var(..) | Piece::Expr(..) | Piece::Undef)) || c.loc.is_some();
        let mut labels = vec![format!("shape:{name}"), format!("carrier:{carrier}")];
        if want.lines().count() > 1 {
            labels.push("multiline".into());
        }
        if c.vertical {
            labels.push("vertical".into());
        }
        if outside {
            labels.push("outside".into());
        }
        Verdict::pass(nontrivial, labels, 1)
    }
}
