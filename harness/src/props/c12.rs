//! C12 Containment: surround encloses, inside is enclosed.

use crate::engine::{Family, Property, Tier, Verdict};
use crate::gen::{self, XEl, X};
use crate::model::{fnum0, out_bbox, BBox};
use crate::run::{num, transform, Cfg, Outcome};
use crate::sxml::{self, Element};
use proptest::collection::vec;
use proptest::prelude::*;
use serde::{Deserialize, Serialize};

pub struct C12;

#[derive(Clone, Debug, Serialize, Deserialize)]
pub enum Target {
    Rect([f64; 4]),
    Circle(f64, f64, f64),
    Ellipse(f64, f64, f64, f64),
    Line([f64; 4]),
    Group(Vec<[f64; 4]>),
    /// an earlier containment result: index into `steps`
    Earlier(usize),
}

#[derive(Clone, Debug, Serialize, Deserialize)]
pub enum M {
    Abs(f64),
    Pct(f64),
}

#[derive(Clone, Debug, Serialize, Deserialize)]
pub struct Step {
    pub container: String,
    pub surround: bool,
    pub refs: Vec<usize>,
    pub margin: Vec<M>,
}

#[derive(Clone, Debug, Serialize, Deserialize)]
pub struct Case {
    pub targets: Vec<Target>,
    pub steps: Vec<Step>,
    /// one target (index) is written with native attributes plus an offset computed from an element that comes last in
    /// the document (height given): it is laid out only after the containers have been tried once
    #[serde(default)]
    pub pending: Option<(usize, f64)>,
}

fn target_xml(i: usize, t: &Target) -> Option<XEl> {
    let id = format!("t{i}");
    Some(match t {
        Target::Rect([x, y, w, h]) => XEl::new("rect").a("id", id).a("xy", format!("{} {}", num(*x), num(*y))).a("wh", format!("{} {}", num(*w), num(*h))),
        Target::Circle(cx, cy, r) => XEl::new("circle").a("id", id).a("cxy", format!("{} {}", num(*cx), num(*cy))).a("r", num(*r)),
        Target::Ellipse(cx, cy, rx, ry) => XEl::new("ellipse").a("id", id).a("cxy", format!("{} {}", num(*cx), num(*cy))).a("rxy", format!("{} {}", num(*rx), num(*ry))),
        Target::Line([x1, y1, x2, y2]) => XEl::new("line").a("id", id).a("xy1", format!("{} {}", num(*x1), num(*y1))).a("xy2", format!("{} {}", num(*x2), num(*y2))),
        Target::Group(kids) => {
            let mut g = XEl::new("g").a("id", id);
            for [x, y, w, h] in kids {
                g.kids.push(X::El(XEl::new("rect").a("xy", format!("{} {}", num(*x), num(*y))).a("wh", format!("{} {}", num(*w), num(*h)))));
            }
            g
        }
        Target::Earlier(_) => return None,
    })
}

fn ref_id(case: &Case, r: usize) -> String {
    match &case.targets[r] {
        Target::Earlier(s) => format!("s{s}"),
        _ => format!("t{r}"),
    }
}

fn margin_txt(m: &[M]) -> String {
    m.iter().map(|v| match v {
        M::Abs(a) => num(*a),
        M::Pct(p) => format!("{}%", num(*p)),
    }).collect::<Vec<_>>().join(" ")
}

pub fn case_xml(c: &Case) -> String {
    let mut els: Vec<XEl> = c.targets.iter().enumerate().filter_map(|(i, t)| target_xml(i, t)).collect();
    let mut late: Option<XEl> = None;
    if let Some((idx, h)) = c.pending {
        let id = format!("t{idx}");
        let native = match c.targets.get(idx) {
            Some(Target::Rect([x, y, w, hh])) => Some(XEl::new("rect").a("id", id.clone()).a("x", num(*x)).a("y", num(*y)).a("width", num(*w)).a("height", num(*hh))),
            Some(Target::Circle(cx, cy, r)) => Some(XEl::new("circle").a("id", id.clone()).a("cx", num(*cx)).a("cy", num(*cy)).a("r", num(*r))),
            Some(Target::Ellipse(cx, cy, rx, ry)) => Some(XEl::new("ellipse").a("id", id.clone()).a("cx", num(*cx)).a("cy", num(*cy)).a("rx", num(*rx)).a("ry", num(*ry))),
            _ => None,
        };
        // a group is pending as long as one of its members is
        if let Some(Target::Group(kids)) = c.targets.get(idx) {
            if let Some(slot) = els.iter_mut().find(|e| e.get("id") == Some(id.as_str())) {
                let [x, y, w, hh] = kids[0];
                slot.kids[0] = X::El(XEl::new("rect").a("x", num(x)).a("y", num(y)).a("width", num(w)).a("height", num(hh)).a(if idx % 2 == 0 { "dy" } else { "dx" }, "{{#late~h}}"));
                late = Some(XEl::new("rect").a("id", "late").a("xy", "300 300").a("wh", format!("3 {}", num(h))));
            }
        }
        if let Some(e) = native {
            if let Some(slot) = els.iter_mut().find(|e| e.get("id") == Some(id.as_str())) {
                *slot = e.a(if idx % 2 == 0 { "dy" } else { "dx" }, "{{#late~h}}");
                late = Some(XEl::new("rect").a("id", "late").a("xy", "300 300").a("wh", format!("3 {}", num(h))));
            }
        }
    }
    for (k, s) in c.steps.iter().enumerate() {
        let mut e = XEl::new(&s.container).a("id", format!("s{k}"));
        e.set(if s.surround { "surround" } else { "inside" }, s.refs.iter().map(|r| format!("#{}", ref_id(c, *r))).collect::<Vec<_>>().join(" "));
        if !s.margin.is_empty() {
            e.set("margin", margin_txt(&s.margin));
        }
        els.push(e);
    }
    els.extend(late);
    gen::svg_root(els).to_xml()
}

// --------------------------------------------------------------------------- generator

fn target() -> impl Strategy<Value = Target> {
    // positions cluster around the origin and sizes are comparable, so that most `inside` lists do intersect
    let c = || prop_oneof![3 => gen::nice(10), 1 => gen::nice(40)];
    let s = || prop_oneof![3 => gen::nice_pos(25).prop_map(|v| v.max(8.0)), 1 => gen::nice_pos(25).prop_map(|v| v.max(1.0))];
    prop_oneof![
        4 => (c(), c(), s(), s()).prop_map(|(x, y, w, h)| Target::Rect([x, y, w, h])),
        2 => (c(), c(), s()).prop_map(|(x, y, r)| Target::Circle(x, y, r)),
        2 => (c(), c(), s(), s()).prop_map(|(x, y, a, b)| Target::Ellipse(x, y, a, b)),
        1 => (c(), c(), c(), c()).prop_map(|(a, b, c2, d)| Target::Line([a, b, c2, d])),
        1 => vec((c(), c(), s(), s()).prop_map(|(x, y, w, h)| [x, y, w, h]), 1..4).prop_map(Target::Group),
    ]
}

fn margin() -> impl Strategy<Value = Vec<M>> {
    let one = prop_oneof![
        3 => gen::nice_pos(6).prop_map(M::Abs),
        // negative margins stay well below the smallest generated size (1), so the grown box never collapses
        1 => (1..3i32).prop_map(|v| M::Abs(-(v as f64) / 8.0)),
        2 => prop_oneof![Just(10.0), Just(12.5), Just(25.0), Just(50.0)].prop_map(M::Pct),
        1 => Just(M::Abs(0.0)),
    ];
    vec(one, 0..5)
}

fn fam_containment(_t: Tier) -> BoxedStrategy<Case> {
    (vec(target(), 1..6), vec((0u8..3, any::<bool>(), vec(any::<u8>(), 1..5), margin()), 1..4), prop::option::weighted(0.25, (any::<u8>(), gen::nice_pos(12))))
        .prop_map(|(mut targets, steps, pend)| {
            let pending = pend.map(|(i, h)| ((i as usize * targets.len()) >> 8, h.max(1.0)));
            let mut out_steps: Vec<Step> = Vec::new();
            for (cont, surround, refs, margin) in steps {
                let n = targets.len();
                let mut rs: Vec<usize> = refs.iter().map(|r| (*r as usize * n) >> 8).collect();
                rs.dedup();
                let container = ["rect", "circle", "ellipse"][cont as usize].to_string();
                // `inside` a line is meaningless (a line encloses no area)
                if !surround {
                    rs.retain(|r| !matches!(targets[*r], Target::Line(_)));
                    if rs.is_empty() {
                        continue;
                    }
                }
                // negative margins for inside would grow the shape beyond its hosts: keep inside margins >= 0
                let margin = if surround { margin } else { margin.into_iter().map(|m| match m { M::Abs(a) => M::Abs(a.abs().min(1.0)), M::Pct(p) => M::Pct(p.min(25.0)) }).collect() };
                out_steps.push(Step { container, surround, refs: rs, margin });
                // later steps may refer to this result
                targets.push(Target::Earlier(out_steps.len() - 1));
            }
            Case { targets, steps: out_steps, pending }
        })
        .prop_filter("at least one step", |c| !c.steps.is_empty())
        .boxed()
}

// --------------------------------------------------------------------------- oracle

#[derive(Clone, Debug)]
enum Shape {
    Rect(BBox),
    Ellipse(f64, f64, f64, f64),
    #[allow(dead_code)]
    Union(Vec<BBox>),
    Segment,
}

fn shape_of(e: &Element) -> Option<(Shape, BBox)> {
    match e.name.as_str() {
        "rect" => out_bbox(e).map(|b| (Shape::Rect(b), b)),
        "circle" => {
            let r = crate::model::fnum(e, "r")?;
            let b = out_bbox(e)?;
            Some((Shape::Ellipse(fnum0(e, "cx"), fnum0(e, "cy"), r, r), b))
        }
        "ellipse" => {
            let b = out_bbox(e)?;
            Some((Shape::Ellipse(fnum0(e, "cx"), fnum0(e, "cy"), crate::model::fnum(e, "rx")?, crate::model::fnum(e, "ry")?), b))
        }
        "line" => out_bbox(e).map(|b| (Shape::Segment, b)),
        "g" => {
            let kids: Vec<BBox> = e.child_elements().filter_map(out_bbox).collect();
            let mut u = *kids.first()?;
            for k in &kids {
                u = u.union(k);
            }
            Some((Shape::Union(kids), u))
        }
        _ => None,
    }
}

fn contains_point(s: &Shape, bb: &BBox, x: f64, y: f64, eps: f64) -> bool {
    match s {
        Shape::Rect(b) => x >= b.x1 - eps && x <= b.x2 + eps && y >= b.y1 - eps && y <= b.y2 + eps,
        Shape::Ellipse(cx, cy, rx, ry) => {
            let (dx, dy) = ((x - cx) / (rx + eps), (y - cy) / (ry + eps));
            dx * dx + dy * dy <= 1.0 + 1e-9
        }
        // a group's "area" for containment is its bounding box (that is what the statement's bounding boxes refer to)
        Shape::Union(_) | Shape::Segment => x >= bb.x1 - eps && x <= bb.x2 + eps && y >= bb.y1 - eps && y <= bb.y2 + eps,
    }
}

fn boundary_points(s: &Shape, bb: &BBox) -> Vec<(f64, f64)> {
    match s {
        Shape::Ellipse(cx, cy, rx, ry) => (0..64).map(|k| {
            let t = k as f64 * std::f64::consts::TAU / 64.0;
            (cx + rx * t.cos(), cy + ry * t.sin())
        }).collect(),
        _ => {
            let mut v = vec![(bb.x1, bb.y1), (bb.x2, bb.y1), (bb.x2, bb.y2), (bb.x1, bb.y2)];
            for k in 1..16 {
                let f = k as f64 / 16.0;
                v.push((bb.x1 + bb.w() * f, bb.y1));
                v.push((bb.x1 + bb.w() * f, bb.y2));
                v.push((bb.x1, bb.y1 + bb.h() * f));
                v.push((bb.x2, bb.y1 + bb.h() * f));
            }
            v
        }
    }
}

/// TRBL from 1-4 values (CSS order rules)
fn trbl(m: &[M]) -> [M; 4] {
    let z = M::Abs(0.0);
    match m.len() {
        0 => [z.clone(), z.clone(), z.clone(), z],
        1 => [m[0].clone(), m[0].clone(), m[0].clone(), m[0].clone()],
        2 => [m[0].clone(), m[1].clone(), m[0].clone(), m[1].clone()],
        3 => [m[0].clone(), m[1].clone(), m[2].clone(), m[1].clone()],
        _ => [m[0].clone(), m[1].clone(), m[2].clone(), m[3].clone()],
    }
}

/// acceptable values of one margin side: absolute, or a percentage of the base box's width or height
fn side_values(m: &M, base: &BBox) -> Vec<f64> {
    match m {
        M::Abs(a) => vec![*a],
        M::Pct(p) => vec![base.w() * p / 100.0, base.h() * p / 100.0],
    }
}

fn near_any(v: f64, cands: &[f64], tol: f64) -> bool {
    cands.iter().any(|c| (v - c).abs() <= tol)
}

/// Do the `inside` steps of the case certainly have a solution? True when every host is a plain box (rect, group) and the
/// boxes overlap by more than any generated margin takes away.
fn certainly_solvable(case: &Case) -> bool {
    let host_box = |r: usize| -> Option<BBox> {
        match case.targets.get(r)? {
            Target::Rect([x, y, w, h]) => Some(BBox::xywh(*x, *y, *w, *h)),
            Target::Group(kids) => kids.iter().map(|[x, y, w, h]| BBox::xywh(*x, *y, *w, *h)).reduce(|a, b| a.union(&b)),
            _ => None,
        }
    };
    case.pending.is_none()
        && case.steps.iter().all(|s| {
            let boxes: Option<Vec<BBox>> = s.refs.iter().map(|r| host_box(*r)).collect();
            match boxes {
                Some(bs) if !bs.is_empty() => {
                    let mut i = Some(bs[0]);
                    for b in &bs[1..] {
                        i = i.and_then(|x| x.intersect(b));
                    }
                    s.surround || i.map(|x| x.w() > 2.5 && x.h() > 2.5).unwrap_or(false)
                }
                _ => false,
            }
        })
}

impl Property for C12 {
    type Case = Case;
    fn id(&self) -> &'static str {
        "C12"
    }
    fn rule(&self) -> String {
        "cases = 1-5 referenced shapes (rect, circle, ellipse, line, group of rects, earlier surround/inside results) with boxes on a 1/8 grid, followed by 1-3 containment steps: container in {rect, circle, ellipse} x {surround, inside} x a 1-4 element reference list x margin forms (0-4 values; absolute, negative, percent). \
         Oracle (recomputed from the output's own geometry): surround - a rect equals the union of the referenced bounding boxes grown by the margin (top/right/bottom/left order; a percent side may be taken of the base box's width or height); a circle or ellipse is centred on that box and contains its four corners, the ellipse through the corners, the circle with radius between the half-diagonal and max(w,h)/sqrt(2); \
         inside - the resulting shape (boundary sampled at 64 points) lies within every listed shape's area and within the intersection of their bounding boxes shrunk by the margin; surround/inside/margin are absent from the output. \
         Non-trivial = >= 2 referenced shapes, or a non-rect container, or a non-uniform margin; distinct by hash of the case."
            .into()
    }
    fn assumptions(&self) -> Vec<String> {
        vec![
            "a group's and a line's 'area' is its bounding box; lines are not used as inside hosts".into(),
            "inside margins are kept non-negative and small so that a solution exists".into(),
        ]
    }
    fn families(&self, tier: Tier) -> Vec<Family<Case>> {
        vec![Family::random("containment", tier.n(40_000, 750_000), fam_containment)]
    }
    fn judge(&self, case: &Case, _strict: bool) -> Verdict {
        let doc = case_xml(case);
        let out = match transform(&doc, &Cfg::plain()) {
            Outcome::Ok(o) => o,
            Outcome::Err(k, m) => {
                // an empty intersection legitimately has no solution - unless the hosts are plain boxes (rects, groups) that
                // overlap by more than any generated margin takes away: then there is one
                if case.steps.iter().any(|s| !s.surround) {
                    if certainly_solvable(case) {
                        return Verdict::fail(format!("c12:inside-rejected-although-hosts-overlap:{k}"), format!("{}\n--- document ---\n{doc}", crate::run::trunc(&m, 1500)), vec![], 1);
                    }
                    return Verdict::skip(format!("inside-without-solution-or-error:{k}"), vec![], 1);
                }
                return Verdict::fail(format!("c12:transform-failed:{k}"), format!("{}\n--- document ---\n{doc}", crate::run::trunc(&m, 1500)), vec![], 1);
            }
            Outcome::Panic(l, m) => return Verdict::fail(format!("c12:panic:{l}"), m, vec![], 1),
        };
        let tree = match sxml::parse_tree(&out) {
            Ok(t) => t,
            Err(e) => return Verdict::fail("c12:output-illformed", e.to_string(), vec![], 1),
        };
        let mut nontrivial = false;
        let mut labels = vec![];
        for (k, s) in case.steps.iter().enumerate() {
            let el = match tree.find_id(&format!("s{k}")) {
                Some(e) => e,
                None => return Verdict::fail("c12:element-missing", format!("#s{k} not in output\n{doc}\n{out}"), vec![], 1),
            };
            for a in ["surround", "inside", "margin"] {
                if el.has_attr(a) {
                    return Verdict::fail(format!("c12:leftover-attribute:{a}"), format!("#s{k} still carries '{a}'\n{out}"), vec![], 1);
                }
            }
            let (shape, bb) = match shape_of(el) {
                Some(x) => x,
                None => {
                    if !s.surround {
                        // empty intersection: the element is emitted without geometry
                        if certainly_solvable(case) {
                            return Verdict::fail("c12:inside-without-geometry-although-hosts-overlap", format!("#s{k} has no geometry\n--- document ---\n{doc}\n--- output ---\n{out}"), vec![], 1);
                        }
                        return Verdict::skip("inside-without-solution", vec![], 1);
                    }
                    return Verdict::fail("c12:no-geometry", format!("#s{k} has no geometry: {:?}\n{doc}", el.attrs), vec![], 1);
                }
            };
            // referenced shapes, read back from the output
            let mut hosts: Vec<(Shape, BBox, String)> = Vec::new();
            for r in &s.refs {
                let id = ref_id(case, *r);
                match tree.find_id(&id).and_then(shape_of) {
                    Some((sh, b)) => hosts.push((sh, b, id)),
                    None => return Verdict::skip(format!("referenced-element-without-geometry:{id}"), vec![], 1),
                }
            }
            // no solution exists when the margin exceeds the hosts (negative size): outside the property's domain
            if bb.w() < 0.0 || bb.h() < 0.0 || hosts.iter().any(|(_, b, _)| b.w() < 0.0 || b.h() < 0.0) {
                return Verdict::skip("margin-exceeds-host-no-solution", vec![], 1);
            }
            if matches!(&shape, Shape::Ellipse(_, _, rx, ry) if *rx < 0.0 || *ry < 0.0) {
                return Verdict::skip("margin-exceeds-host-no-solution", vec![], 1);
            }
            if bb.w() <= 0.0 || bb.h() <= 0.0 {
                // a negative margin collapsed the box: degenerate, nothing meaningful to enclose
                return Verdict::skip("negative-margin-collapses-box", vec![], 1);
            }
            let m = trbl(&s.margin);
            let tol = 0.004;
            let ctx = || format!("--- document ---\n{doc}\n--- output ---\n{out}");
            if s.surround {
                let mut base = hosts[0].1;
                for h in &hosts {
                    base = base.union(&h.1);
                }
                let (mt, mr, mb, ml) = (side_values(&m[0], &base), side_values(&m[1], &base), side_values(&m[2], &base), side_values(&m[3], &base));
                match &shape {
                    Shape::Rect(b) => {
                        let ok = near_any(base.y1 - b.y1, &mt, tol) && near_any(b.x2 - base.x2, &mr, tol) && near_any(b.y2 - base.y2, &mb, tol) && near_any(base.x1 - b.x1, &ml, tol);
                        if !ok {
                            return Verdict::fail(
                                format!("c12:surround-rect-not-union-plus-margin:{}", if s.margin.len() > 1 { "multi-margin" } else { "uniform" }),
                                format!("#s{k}: union of references {base:?}, margin t/r/b/l candidates {mt:?} {mr:?} {mb:?} {ml:?}, but rect is {b:?}\n{}", ctx()),
                                vec![],
                                1,
                            );
                        }
                    }
                    Shape::Ellipse(cx, cy, rx, ry) => {
                        // the enclosed box: union grown by the margin, for every acceptable reading of percent sides
                        let mut ok_any = false;
                        let mut why = String::new();
                        for t in &mt {
                            for r in &mr {
                                for b2 in &mb {
                                    for l in &ml {
                                        let g = BBox::new(base.x1 - l, base.y1 - t, base.x2 + r, base.y2 + b2);
                                        let centred = (cx - g.cx()).abs() <= tol && (cy - g.cy()).abs() <= tol;
                                        let corners_in = [(g.x1, g.y1), (g.x2, g.y1), (g.x2, g.y2), (g.x1, g.y2)].iter().all(|(x, y)| contains_point(&shape, &bb, *x, *y, tol));
                                        let tight = if el.name == "circle" {
                                            let half_diag = (g.w() * g.w() + g.h() * g.h()).sqrt() / 2.0;
                                            *rx >= half_diag - tol && *rx <= g.w().max(g.h()) / 2f64.sqrt() + tol
                                        } else {
                                            (rx - g.w() / 2.0 * 2f64.sqrt()).abs() <= tol && (ry - g.h() / 2.0 * 2f64.sqrt()).abs() <= tol
                                        };
                                        if centred && corners_in && tight {
                                            ok_any = true;
                                        } else if why.is_empty() {
                                            why = format!("grown box {g:?}: centred={centred} corners-inside={corners_in} tight={tight}");
                                        }
                                    }
                                }
                            }
                        }
                        if !ok_any {
                            return Verdict::fail(format!("c12:surround-{}-not-circumscribing", el.name), format!("#s{k}: {} cx={cx} cy={cy} rx={rx} ry={ry}; {why}\n{}", el.name, ctx()), vec![], 1);
                        }
                    }
                    _ => {}
                }
            } else {
                // inside: contained in every host's area ...
                let pts = boundary_points(&shape, &bb);
                for (hs, hb, hid) in &hosts {
                    if let Some((x, y)) = pts.iter().find(|(x, y)| !contains_point(hs, hb, *x, *y, tol)) {
                        let round_container = el.name != "rect";
                        let any_round_host = hosts.iter().any(|(h, _, _)| matches!(h, Shape::Ellipse(..)));
                        let sig = if round_container && any_round_host && (hosts.len() >= 2 || s.margin.len() >= 2) { "c12:inside-not-contained:round-container-round-host".to_string() } else { format!("c12:inside-not-contained:{}-in-{}", el.name, match hs { Shape::Ellipse(..) => "round", _ => "box" }) };
                        return Verdict::fail(sig, format!("#s{k} ({} {:?}) pokes outside #{hid} at ({x:.3}, {y:.3})\n{}", el.name, bb, ctx()), vec![], 1);
                    }
                }
                // ... and in the intersection of their bounding boxes shrunk by the (most permissive reading of the) margin
                let mut ib = Some(hosts[0].1);
                for h in &hosts {
                    ib = ib.and_then(|b| b.intersect(&h.1));
                }
                if let Some(ib) = ib {
                    let min_of = |v: Vec<f64>| v.into_iter().fold(f64::INFINITY, f64::min);
                    // the base for a percentage is the (inscribed) intersection box, which for round hosts is smaller than the
                    // bounding-box intersection: percentages are therefore only checked as "at least zero"
                    let pct_floor = |mm: &M, v: Vec<f64>| if matches!(mm, M::Pct(_)) && hosts.iter().any(|(h, _, _)| matches!(h, Shape::Ellipse(..))) { 0.0 } else { min_of(v) };
                    let g = BBox::new(ib.x1 + pct_floor(&m[3], side_values(&m[3], &ib)), ib.y1 + pct_floor(&m[0], side_values(&m[0], &ib)), ib.x2 - pct_floor(&m[1], side_values(&m[1], &ib)), ib.y2 - pct_floor(&m[2], side_values(&m[2], &ib)));
                    if bb.x1 < g.x1 - tol || bb.y1 < g.y1 - tol || bb.x2 > g.x2 + tol || bb.y2 > g.y2 + tol {
                        return Verdict::fail(format!("c12:inside-ignores-margin:{}", if s.margin.len() > 1 { "multi-margin" } else { "uniform" }), format!("#s{k}: bounding box {bb:?} is not within the hosts' intersection shrunk by the margin {g:?}\n{}", ctx()), vec![], 1);
                    }
                }
            }
            if s.refs.len() >= 2 || s.container != "rect" || s.margin.len() >= 2 {
                nontrivial = true;
            }
            let l = format!("{}:{}", if s.surround { "surround" } else { "inside" }, s.container);
            if !labels.contains(&l) {
                labels.push(l);
            }
        }
        Verdict::pass(nontrivial, labels, 1)
    }
}
