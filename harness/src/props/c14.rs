//! C14 Expressions evaluate with conventional arithmetic semantics, exactly once.

use crate::engine::{Family, Property, Tier, Verdict};
use crate::gen::{self, XEl, X};
use crate::run::{transform, Cfg, Outcome};
use crate::sxml::{self, Element, Node};
use proptest::collection::vec;
use proptest::prelude::*;
use rand::{Rng, SeedableRng};
use rand_pcg::Pcg32;
use serde::{Deserialize, Serialize};

pub struct C14;

// --------------------------------------------------------------------------- AST

#[derive(Clone, Debug, Serialize, Deserialize)]
pub enum Ast {
    Num(f32),
    Var(String),
    Neg(Box<Ast>),
    /// * / % + -
    Bin(char, Box<Ast>, Box<Ast>),
    /// eq ne gt ge lt le
    Cmp(String, Box<Ast>, Box<Ast>),
    /// and or xor
    Logic(String, Box<Ast>, Box<Ast>),
    Fun(String, Vec<Ast>),
    /// redundant parentheses
    Paren(Box<Ast>),
}

#[derive(Clone, Debug, PartialEq)]
pub enum Val {
    N(f32),
    L(Vec<Val>),
}

impl Val {
    fn flat(&self, out: &mut Vec<f32>) {
        match self {
            Val::N(x) => out.push(*x),
            Val::L(v) => v.iter().for_each(|e| e.flat(out)),
        }
    }
    fn list(&self) -> Vec<f32> {
        let mut v = Vec::new();
        self.flat(&mut v);
        v
    }
}

fn level(a: &Ast) -> u8 {
    match a {
        Ast::Logic(..) => 0,
        Ast::Cmp(..) => 1,
        Ast::Bin('+', ..) | Ast::Bin('-', ..) => 2,
        Ast::Bin(..) => 3,
        _ => 4,
    }
}

fn numtxt(x: f32) -> String {
    // plain decimal literal
    if x == x.trunc() && x.abs() < 1e7 {
        format!("{}", x as i64)
    } else {
        let s = format!("{:.4}", x);
        s.trim_end_matches('0').trim_end_matches('.').to_string()
    }
}

/// Print with minimal parentheses; `ws` supplies deterministic whitespace choices.
pub fn print(a: &Ast, ws: &mut u64) -> String {
    fn sp(ws: &mut u64, must: bool) -> &'static str {
        *ws = ws.wrapping_mul(6364136223846793005).wrapping_add(1442695040888963407);
        match (*ws >> 60) & 3 {
            0 if !must => "",
            1 => "  ",
            _ => " ",
        }
    }
    fn wrap(a: &Ast, need: u8, ws: &mut u64) -> String {
        let s = print(a, ws);
        if level(a) < need {
            format!("({s})")
        } else {
            s
        }
    }
    match a {
        Ast::Num(x) => numtxt(*x),
        Ast::Var(v) => {
            if sp(ws, false).is_empty() {
                format!("${v}")
            } else {
                format!("${{{v}}}")
            }
        }
        Ast::Neg(e) => format!("-{}", wrap(e, 4, ws)),
        Ast::Paren(e) => {
            let (a1, a2) = (sp(ws, false), sp(ws, false));
            format!("({a1}{}{a2})", print(e, ws))
        }
        Ast::Bin(op, l, r) => {
            let (ll, rl) = if *op == '+' || *op == '-' { (2, 3) } else { (3, 4) };
            let ls = wrap(l, ll, ws);
            let rs = wrap(r, rl, ws);
            let (a1, a2) = (sp(ws, false), sp(ws, false));
            format!("{ls}{a1}{op}{a2}{rs}")
        }
        Ast::Cmp(op, l, r) => {
            let ls = wrap(l, 2, ws);
            let rs = wrap(r, 2, ws);
            let (a1, a2) = (sp(ws, true), sp(ws, true));
            format!("{ls}{a1}{op}{a2}{rs}")
        }
        Ast::Logic(op, l, r) => {
            // same-operator chains may stay bare (left associative); mixed logical operators are always parenthesised
            let ls = match &**l {
                Ast::Logic(lop, ..) if lop == op => print(l, ws),
                _ => wrap(l, 1, ws),
            };
            let rs = wrap(r, 1, ws);
            let (a1, a2) = (sp(ws, true), sp(ws, true));
            format!("{ls}{a1}{op}{a2}{rs}")
        }
        Ast::Fun(name, args) => {
            let parts: Vec<String> = args.iter().map(|x| print(x, ws)).collect();
            let sep = format!(",{}", sp(ws, false));
            format!("{name}({})", parts.join(&sep))
        }
    }
}

// --------------------------------------------------------------------------- reference evaluator (f32, op by op)

pub type Vars = Vec<(String, Val)>;

pub fn eval(a: &Ast, vars: &Vars) -> Result<Val, String> {
    let num = |a: &Ast| -> Result<f32, String> {
        match eval(a, vars)? {
            Val::N(x) => Ok(x),
            Val::L(v) => {
                let f = Val::L(v).list();
                if f.len() == 1 {
                    Ok(f[0])
                } else {
                    Err("expected a single number".into())
                }
            }
        }
    };
    Ok(match a {
        Ast::Num(x) => Val::N(*x),
        Ast::Var(v) => vars.iter().find(|(k, _)| k == v).map(|(_, x)| x.clone()).ok_or_else(|| format!("undefined ${v}"))?,
        Ast::Paren(e) => eval(e, vars)?,
        Ast::Neg(e) => Val::N(-num(e)?),
        Ast::Bin(op, l, r) => {
            let (x, y) = (num(l)?, num(r)?);
            Val::N(match op {
                '+' => x + y,
                '-' => x - y,
                '*' => x * y,
                '/' => x / y,
                _ => x.rem_euclid(y),
            })
        }
        Ast::Cmp(op, l, r) => {
            let (x, y) = (num(l)?, num(r)?);
            let b = match op.as_str() {
                "eq" => x == y,
                "ne" => x != y,
                "gt" => x > y,
                "ge" => x >= y,
                "lt" => x < y,
                _ => x <= y,
            };
            Val::N(if b { 1.0 } else { 0.0 })
        }
        Ast::Logic(op, l, r) => {
            let (x, y) = (num(l)? != 0.0, num(r)? != 0.0);
            let b = match op.as_str() {
                "and" => x && y,
                "or" => x || y,
                _ => x != y,
            };
            Val::N(if b { 1.0 } else { 0.0 })
        }
        Ast::Fun(name, args) => {
            // arguments form one flattened list
            let mut flat: Vec<f32> = Vec::new();
            for x in args {
                eval(x, vars)?.flat(&mut flat);
            }
            let one = |f: &Vec<f32>| if f.len() == 1 { Ok(f[0]) } else { Err(format!("{name}: expected 1 argument, got {}", f.len())) };
            let two = |f: &Vec<f32>| if f.len() == 2 { Ok((f[0], f[1])) } else { Err(format!("{name}: expected 2 arguments, got {}", f.len())) };
            let three = |f: &Vec<f32>| if f.len() == 3 { Ok((f[0], f[1], f[2])) } else { Err(format!("{name}: expected 3 arguments, got {}", f.len())) };
            let b = |x: bool| Val::N(if x { 1.0 } else { 0.0 });
            match name.as_str() {
                "abs" => Val::N(one(&flat)?.abs()),
                "ceil" => Val::N(one(&flat)?.ceil()),
                "floor" => Val::N(one(&flat)?.floor()),
                "fract" => Val::N(one(&flat)?.fract()),
                "sign" => {
                    let x = one(&flat)?;
                    Val::N(if x == 0.0 { 0.0 } else { x.signum() })
                }
                "sqrt" => Val::N(one(&flat)?.sqrt()),
                "log" => Val::N(one(&flat)?.ln()),
                "exp" => Val::N(one(&flat)?.exp()),
                "sin" => Val::N(one(&flat)?.to_radians().sin()),
                "cos" => Val::N(one(&flat)?.to_radians().cos()),
                "tan" => Val::N(one(&flat)?.to_radians().tan()),
                "asin" => Val::N(one(&flat)?.asin().to_degrees()),
                "acos" => Val::N(one(&flat)?.acos().to_degrees()),
                "atan" => Val::N(one(&flat)?.atan().to_degrees()),
                "not" => b(one(&flat)? == 0.0),
                "pow" => {
                    let (x, y) = two(&flat)?;
                    Val::N(x.powf(y))
                }
                "divmod" => {
                    let (x, n) = two(&flat)?;
                    Val::L(vec![Val::N(x.div_euclid(n)), Val::N(x.rem_euclid(n))])
                }
                "eq" => {
                    let (x, y) = two(&flat)?;
                    b(x == y)
                }
                "ne" => {
                    let (x, y) = two(&flat)?;
                    b(x != y)
                }
                "lt" => {
                    let (x, y) = two(&flat)?;
                    b(x < y)
                }
                "le" => {
                    let (x, y) = two(&flat)?;
                    b(x <= y)
                }
                "gt" => {
                    let (x, y) = two(&flat)?;
                    b(x > y)
                }
                "ge" => {
                    let (x, y) = two(&flat)?;
                    b(x >= y)
                }
                "and" => {
                    let (x, y) = two(&flat)?;
                    b(x != 0.0 && y != 0.0)
                }
                "or" => {
                    let (x, y) = two(&flat)?;
                    b(x != 0.0 || y != 0.0)
                }
                "xor" => {
                    let (x, y) = two(&flat)?;
                    b((x != 0.0) != (y != 0.0))
                }
                "swap" => {
                    let (x, y) = two(&flat)?;
                    Val::L(vec![Val::N(y), Val::N(x)])
                }
                "r2p" => {
                    let (x, y) = two(&flat)?;
                    Val::L(vec![Val::N(x.hypot(y)), Val::N(y.atan2(x).to_degrees())])
                }
                "p2r" => {
                    let (r, t) = two(&flat)?;
                    let t = t.to_radians();
                    Val::L(vec![Val::N(r * t.cos()), Val::N(r * t.sin())])
                }
                "clamp" => {
                    let (x, lo, hi) = three(&flat)?;
                    if !(lo <= hi) {
                        return Err("clamp: min > max".into());
                    }
                    Val::N(x.clamp(lo, hi))
                }
                "mix" => {
                    let (s, e, c) = three(&flat)?;
                    Val::N(s * (1.0 - c) + e * c)
                }
                "if" => {
                    let (c, x, y) = three(&flat)?;
                    Val::N(if c != 0.0 { x } else { y })
                }
                "min" => Val::N(flat.iter().copied().min_by(|a, b| a.total_cmp(b)).ok_or("min of nothing")?),
                "max" => Val::N(flat.iter().copied().max_by(|a, b| a.total_cmp(b)).ok_or("max of nothing")?),
                "sum" => Val::N(flat.iter().copied().sum()),
                "product" => Val::N(flat.iter().copied().product()),
                "mean" => {
                    if flat.is_empty() {
                        return Err("mean of nothing".into());
                    }
                    let n = flat.len() as f32;
                    Val::N(flat.iter().copied().sum::<f32>() / n)
                }
                "count" => Val::N(flat.len() as f32),
                "empty" => b(flat.is_empty()),
                "head" => {
                    if flat.is_empty() {
                        Val::L(vec![])
                    } else {
                        Val::N(flat[0])
                    }
                }
                "tail" => {
                    if flat.len() < 2 {
                        Val::L(vec![])
                    } else {
                        Val::L(flat[1..].iter().map(|x| Val::N(*x)).collect())
                    }
                }
                "in" => {
                    if flat.is_empty() {
                        return Err("in: no arguments".into());
                    }
                    b(flat[1..].contains(&flat[0]))
                }
                "select" => {
                    if flat.len() < 2 {
                        return Err("select: too few".into());
                    }
                    let n = flat[0] as usize;
                    let rest = &flat[1..];
                    if n < rest.len() {
                        Val::N(rest[n])
                    } else {
                        return Err("select: out of range".into());
                    }
                }
                "addv" | "subv" => {
                    if flat.len() % 2 != 0 {
                        return Err("addv: odd".into());
                    }
                    let h = flat.len() / 2;
                    Val::L((0..h).map(|i| Val::N(if name == "addv" { flat[i] + flat[i + h] } else { flat[i] - flat[i + h] })).collect())
                }
                "scalev" => {
                    if flat.len() < 2 {
                        return Err("scalev: too few".into());
                    }
                    Val::L(flat[1..].iter().map(|x| Val::N(flat[0] * x)).collect())
                }
                other => return Err(format!("reference has no function {other}")),
            }
        }
    })
}

/// svgdx's number formatting (documented: at most 3 decimals, trailing zeros trimmed, tiny values are 0)
pub fn fstr(x: f32) -> String {
    if x.abs() < 0.0001 {
        return "0".into();
    }
    // whole numbers are printed without a fraction (through a type wide enough for every f32 that still has unit steps)
    if x.fract() == 0.0 && x.abs() < 1e15 {
        return (x as i64).to_string();
    }
    let r = format!("{x:.3}");
    r.trim_end_matches('0').trim_end_matches('.').to_string()
}

pub fn show(v: &Val) -> String {
    let f = v.list();
    f.iter().map(|x| fstr(*x)).collect::<Vec<_>>().join(", ")
}

fn values_match(expected: &Val, got: &str) -> bool {
    let want = expected.list();
    let parts: Vec<&str> = if got.trim().is_empty() { vec![] } else { got.split(',').map(|s| s.trim()).collect() };
    if parts.len() != want.len() {
        return false;
    }
    want.iter().zip(parts.iter()).all(|(w, g)| {
        let gv = match g.parse::<f32>() {
            Ok(v) => v,
            Err(_) => return false,
        };
        if w.is_nan() {
            return gv.is_nan();
        }
        if w.is_infinite() {
            return gv == *w;
        }
        ((*w as f64) - (gv as f64)).abs() <= 0.0011 + 2e-6 * (*w as f64).abs()
    })
}

// --------------------------------------------------------------------------- generators

const F1: &[&str] = &["abs", "ceil", "floor", "fract", "sign", "sqrt", "log", "exp", "sin", "cos", "tan", "asin", "acos", "atan", "not"];
const F2: &[&str] = &["pow", "eq", "ne", "lt", "le", "gt", "ge", "and", "or", "xor"];
const F3: &[&str] = &["clamp", "mix", "if"];
const FV: &[&str] = &["min", "max", "sum", "product", "mean", "count", "head", "select", "in"];
const FL: &[&str] = &["divmod", "swap", "r2p", "p2r", "addv", "subv", "scalev", "tail"];

fn lit() -> impl Strategy<Value = Ast> {
    prop_oneof![
        4 => (-20i32..=20).prop_map(|v| Ast::Num(v as f32)),
        3 => (-400i32..=400).prop_map(|v| Ast::Num(v as f32 / 8.0)),
        1 => prop_oneof![Just(0.0f32), Just(1.0), Just(90.0), Just(45.0), Just(360.0), Just(0.5), Just(100.0), Just(-1.0), Just(65536.0), Just(32768.0), Just(2147483648.0), Just(16777216.0)].prop_map(Ast::Num),
        2 => prop_oneof![Just("a"), Just("b"), Just("neg"), Just("half")].prop_map(|v| Ast::Var(v.to_string())),
    ]
}

fn ast(depth: u32) -> BoxedStrategy<Ast> {
    lit()
        .prop_recursive(depth, 64, 4, |inner| {
            let i = inner.clone();
            prop_oneof![
                3 => (prop_oneof![Just('+'), Just('-'), Just('*'), Just('/'), Just('%')], i.clone(), i.clone()).prop_map(|(o, l, r)| Ast::Bin(o, Box::new(l), Box::new(r))),
                1 => (prop_oneof![Just("eq"), Just("ne"), Just("gt"), Just("ge"), Just("lt"), Just("le")], i.clone(), i.clone()).prop_map(|(o, l, r)| Ast::Cmp(o.to_string(), Box::new(l), Box::new(r))),
                1 => (prop_oneof![Just("and"), Just("or"), Just("xor")], i.clone(), i.clone()).prop_map(|(o, l, r)| Ast::Logic(o.to_string(), Box::new(l), Box::new(r))),
                1 => i.clone().prop_map(|e| Ast::Neg(Box::new(e))),
                1 => i.clone().prop_map(|e| Ast::Paren(Box::new(e))),
                1 => (0..F1.len(), i.clone()).prop_map(|(k, e)| Ast::Fun(F1[k].to_string(), vec![e])),
                1 => (0..F2.len(), i.clone(), i.clone()).prop_map(|(k, a, b)| Ast::Fun(F2[k].to_string(), vec![a, b])),
                1 => (0..F3.len(), i.clone(), i.clone(), i.clone()).prop_map(|(k, a, b, c)| Ast::Fun(F3[k].to_string(), vec![a, b, c])),
                1 => (0..FV.len(), vec(i.clone(), 1..5)).prop_map(|(k, a)| Ast::Fun(FV[k].to_string(), a)),
                // list-valued functions consumed by a variadic function
                1 => (0..FL.len(), vec(i.clone(), 2..5), 0..4usize).prop_map(|(k, a, outer)| Ast::Fun(["sum", "max", "count", "head"][outer].to_string(), vec![Ast::Fun(FL[k].to_string(), a), Ast::Var("lst".into())])),
            ]
        })
        .boxed()
}

fn top(depth: u32) -> BoxedStrategy<Ast> {
    prop_oneof![
        8 => ast(depth),
        // chains of additions at the edge of single precision: every step rounds (16777216 + 1 + 1 is 16777216)
        1 => (prop_oneof![Just(16777216.0f32), Just(33554432.0), Just(-16777216.0)], vec((prop_oneof![Just('+'), Just('-')], prop_oneof![Just(1.0f32), Just(3.0), Just(0.5), Just(2.0), Just(16777216.0)]), 2..5)).prop_map(|(big, steps)| {
            let mut e = Ast::Num(big);
            for (op, v) in steps {
                e = Ast::Bin(op, Box::new(e), Box::new(Ast::Num(v)));
            }
            e
        }),
        // list-valued at the top level
        1 => (0..FL.len(), vec(ast(2), 2..5)).prop_map(|(k, a)| Ast::Fun(FL[k].to_string(), a)),
        1 => Just(Ast::Var("lst".into())),
    ]
    .boxed()
}

#[derive(Clone, Debug, Serialize, Deserialize)]
pub enum Case {
    /// expressions with a context selector each, printed with whitespace seeds
    Exprs { items: Vec<(Ast, u8, u64)> },
    /// once-ness: items in document order
    Once { seed: u64, items: Vec<OnceItem> },
    /// malformed: a document that must fail
    Malformed { doc: String, what: String },
}

#[derive(Clone, Debug, Serialize, Deserialize)]
pub enum OnceItem {
    /// a probe element: kind 0 text attr random(), 1 geometry randint, 2 var then text, 3 comment, 4 two occurrences in one attribute,
    /// 5 two identically spelled attributes of one element
    Probe(u8, i32, i32),
    Loop(u8, Vec<OnceItem>),
    /// loop whose count is itself random: randint(lo, hi)
    RandLoop(i32, i32, Vec<OnceItem>),
    If(bool, Vec<OnceItem>),
    Group(Vec<OnceItem>),
    /// reuse of a template with a random parameter
    Reuse(u8),
}

fn vars() -> Vars {
    vec![
        ("a".into(), Val::N(3.0)),
        ("b".into(), Val::N(-2.5)),
        ("neg".into(), Val::N(-7.0)),
        ("half".into(), Val::N(0.5)),
        ("lst".into(), Val::L(vec![Val::N(4.0), Val::N(-1.5), Val::N(10.0)])),
    ]
}

const VAR_DECL: &str = "<var a=\"3\" b=\"-2.5\" neg=\"-7\" half=\"0.5\" lst=\"4, -1.5, 10\"/>";

fn fam_exprs(t: Tier) -> BoxedStrategy<Case> {
    let depth = if t == Tier::Quick { 5 } else { 7 };
    vec((top(depth), 0u8..6, any::<u64>()), 12..24).prop_map(|items| Case::Exprs { items }).boxed()
}

fn once_item(depth: u32) -> BoxedStrategy<OnceItem> {
    let leaf = prop_oneof![8 => (0u8..8, 1..20i32, 1..50i32).prop_map(|(k, lo, span)| OnceItem::Probe(k, lo, lo + span)), 2 => (0u8..2).prop_map(OnceItem::Reuse), 1 => Just(OnceItem::Reuse(2))];
    leaf.prop_recursive(depth, 24, 4, |inner| {
        prop_oneof![
            2 => (1u8..4, vec(inner.clone(), 1..4)).prop_map(|(n, b)| OnceItem::Loop(n, b)),
            1 => (0..3i32, 0..3i32, vec(inner.clone(), 1..3)).prop_map(|(lo, span, b)| OnceItem::RandLoop(lo, lo + span, b)),
            1 => (any::<bool>(), vec(inner.clone(), 1..3)).prop_map(|(c, b)| OnceItem::If(c, b)),
            1 => vec(inner.clone(), 1..3).prop_map(OnceItem::Group),
        ]
    })
    .boxed()
}

fn fam_once(_t: Tier) -> BoxedStrategy<Case> {
    (any::<u64>(), vec(once_item(3), 1..6)).prop_map(|(seed, items)| Case::Once { seed, items }).boxed()
}

fn fam_malformed(_t: Tier) -> BoxedStrategy<Case> {
    (0u8..12, ast(3), any::<u64>(), 0usize..40, 1usize..5)
        .prop_map(|(kind, e, ws, fsel, n)| {
            let mut w = ws;
            let good = print(&e, &mut w);
            let fixed: Vec<(&str, usize)> = F1.iter().map(|f| (*f, 1usize)).chain(F2.iter().map(|f| (*f, 2))).chain(F3.iter().map(|f| (*f, 3))).chain([("random", 0), ("randint", 2), ("divmod", 2), ("swap", 2), ("r2p", 2), ("p2r", 2)]).collect();
            let (fname, arity) = fixed[fsel % fixed.len()];
            let (expr, what): (String, String) = match kind {
                0 => (format!("({good}"), "unbalanced-open".into()),
                1 => (format!("{good})"), "unbalanced-close".into()),
                2 => (format!("frobnicate({good})"), "unknown-function".into()),
                3 => {
                    let args: Vec<String> = (0..arity + 1).map(|i| format!("{}", i + 1)).collect();
                    (format!("{fname}({})", args.join(", ")), format!("arity+1:{fname}"))
                }
                4 => {
                    if arity == 0 {
                        ("random(1)".to_string(), "arity+1:random".into())
                    } else {
                        let args: Vec<String> = (0..arity - 1).map(|i| format!("{}", i + 1)).collect();
                        (format!("{fname}({})", args.join(", ")), format!("arity-1:{fname}"))
                    }
                }
                5 => (format!("{good} + $undefined_var"), "undefined-variable".into()),
                // an undefined variable where a list would be acceptable: as a function argument, bare, in brackets
                9 => ([format!("max($undefined_var, {good})"), "$undefined_var".to_string(), "($undefined_var)".to_string(), "count($undefined_var)".to_string(), format!("sum({good}, $undefined_var)")][fsel % 5].clone(), "undefined-variable-as-argument".into()),
                10 => (format!("head($widht, {good})"), "undefined-variable-as-argument".into()),
                // vector functions pair their arguments up: an odd number of values is a wrong number of arguments
                11 => (["subv(20, 10, 5)", "addv(1, 2, 3)", "subv($lst)", "addv($lst, 1, 2)", "subv(1)"][fsel % 5].to_string(), "arity-odd:vector-function".into()),
                6 => (format!("{good} +"), "dangling-operator".into()),
                7 => ("$cyc0 + 1".to_string(), format!("variable-cycle:{n}")),
                _ => (format!("({good}) ({good})"), "missing-operator".into()),
            };
            let mut pre = String::from(VAR_DECL);
            if kind == 7 {
                // cycle of length n among cyc0..cyc{n-1}: values hold unresolved references to each other
                for i in 0..n {
                    pre.push_str(&format!("<var cyc{}=\"\\$cyc{}\"/>", i, (i + 1) % n));
                }
            }
            let ctx = match (ws >> 8) % 8 {
                // (a condition is a condition whether or not there is anything to render under it)
                4 => format!("<if test=\"{expr}\"/><rect wh=\"2\"/>"),
                5 => format!("<if test=\"{expr}\"></if><rect wh=\"2\"/>"),
                // (loops whose body renders nothing; a loop element without any content is skipped as a whole - there is no
                // pass whose condition could be evaluated - and is not generated)
                6 => format!("<loop while=\"{expr}\"><var z=\"1\"/></loop><rect wh=\"2\"/>"),
                7 => format!("<loop count=\"{{{{{expr}}}}}\"><!-- nothing --></loop><rect wh=\"2\"/>"),
                0 => format!("<rect wh=\"2\" text=\"{{{{{expr}}}}}\"/>"),
                1 => format!("<rect xy=\"{{{{{expr}}}}} 0\" wh=\"2\"/>"),
                2 => format!("<var q=\"{{{{{expr}}}}}\"/><rect wh=\"2\"/>"),
                _ => format!("<if test=\"{expr}\"><rect wh=\"2\"/></if>"),
            };
            Case::Malformed { doc: format!("<svg>{pre}{ctx}</svg>"), what }
        })
        .boxed()
}

// --------------------------------------------------------------------------- once-ness reference

struct OnceCtx {
    rng: Pcg32,
    expected: Vec<String>,
    k: usize,
}

fn once_xml(items: &[OnceItem], c: &mut OnceCtx, out: &mut Vec<X>, nest: usize) {
    for it in items {
        match it {
            OnceItem::Probe(kind, lo, hi) => {
                let k = c.k;
                c.k += 1;
                match kind {
                    0 => {
                        out.push(X::El(XEl::new("text").a("data-p", format!("{k}")).a("xy", "0 0").a("text", "{{random()}}")));
                        c.expected.push(format!("T{k}:{}", fstr(c.rng.random::<f32>())));
                    }
                    1 => {
                        out.push(X::El(XEl::new("rect").a("data-p", format!("{k}")).a("xy", format!("{{{{randint({lo}, {hi})}}}} 0")).a("wh", "2")));
                        c.expected.push(format!("X{k}:{}", c.rng.random_range(*lo..=*hi)));
                    }
                    2 => {
                        out.push(X::El(XEl::new("var").a(&format!("rv{nest}"), format!("{{{{randint({lo}, {hi})}}}}"))));
                        out.push(X::El(XEl::new("text").a("data-p", format!("{k}")).a("xy", "0 0").a("text", format!("$rv{nest} and again $rv{nest}"))));
                        let v = c.rng.random_range(*lo..=*hi);
                        c.expected.push(format!("T{k}:{v} and again {v}"));
                    }
                    3 => {
                        out.push(X::El(XEl::new("rect").a("data-p", format!("{k}")).a("wh", "2").a("_", format!("p{k}={{{{randint({lo}, {hi})}}}}"))));
                        c.expected.push(format!("C{k}:{}", c.rng.random_range(*lo..=*hi)));
                    }
                    6 => {
                        // an id built from a random function: the element is registered and emitted under one and the same value
                        out.push(X::El(XEl::new("rect").a("data-p", format!("{k}")).a("data-idp", "1").a("id", format!("i{k}x{{{{randint({lo}, {})}}}}", hi + 100_000)).a("wh", "2")));
                        c.expected.push(format!("I{k}:i{k}x{}", c.rng.random_range(*lo..=*hi + 100_000)));
                    }
                    7 => {
                        // a <config> element that does not touch the seed leaves the random sequence alone
                        out.push(X::El(XEl::new("config").a("font-size", "4")));
                        out.push(X::El(XEl::new("text").a("data-p", format!("{k}")).a("xy", "0 0").a("text", format!("{{{{randint({lo}, {hi})}}}}"))));
                        c.expected.push(format!("T{k}:{}", c.rng.random_range(*lo..=*hi)));
                    }
                    5 => {
                        // two attributes of one element spelled identically: still two occurrences, evaluated in attribute order
                        let e = format!("{{{{randint({lo}, {})}}}}", hi + 100_000);
                        out.push(X::El(XEl::new("rect").a("data-p", format!("{k}")).a("data-two", "1").a("x", e.clone()).a("y", e).a("wh", "2")));
                        let a = c.rng.random_range(*lo..=*hi + 100_000);
                        let b = c.rng.random_range(*lo..=*hi + 100_000);
                        c.expected.push(format!("Y{k}:{a},{b}"));
                    }
                    _ => {
                        out.push(X::El(XEl::new("text").a("data-p", format!("{k}")).a("xy", "0 0").a("text", format!("{{{{randint({lo}, {hi})}}}}|{{{{randint({lo}, {hi}), random()}}}}"))));
                        let a = c.rng.random_range(*lo..=*hi);
                        let b = c.rng.random_range(*lo..=*hi);
                        let r = c.rng.random::<f32>();
                        c.expected.push(format!("T{k}:{a}|{b}, {}", fstr(r)));
                    }
                }
            }
            OnceItem::Loop(n, body) => {
                let mut l = XEl::new("loop").a("count", format!("{n}"));
                // the XML is emitted once; the expectation is unrolled n times
                let mut scratch = OnceCtx { rng: c.rng.clone(), expected: vec![], k: c.k };
                once_xml(body, &mut scratch, &mut l.kids, nest + 1);
                out.push(X::El(l));
                let k0 = c.k;
                for _ in 0..*n {
                    c.k = k0;
                    let mut sink = Vec::new();
                    once_xml(body, c, &mut sink, nest + 1);
                }
                c.k = scratch.k;
            }
            OnceItem::RandLoop(lo, hi, body) => {
                let mut l = XEl::new("loop").a("count", format!("{{{{randint({lo}, {hi})}}}}"));
                let mut scratch = OnceCtx { rng: c.rng.clone(), expected: vec![], k: c.k };
                once_xml(body, &mut scratch, &mut l.kids, nest + 1);
                out.push(X::El(l));
                let n = c.rng.random_range(*lo..=*hi);
                let k0 = c.k;
                for _ in 0..n {
                    c.k = k0;
                    let mut sink = Vec::new();
                    once_xml(body, c, &mut sink, nest + 1);
                }
                c.k = scratch.k;
            }
            OnceItem::If(cond, body) => {
                let mut l = XEl::new("if").a("test", if *cond { "1" } else { "0" });
                if *cond {
                    once_xml(body, c, &mut l.kids, nest + 1);
                } else {
                    let mut scratch = OnceCtx { rng: c.rng.clone(), expected: vec![], k: c.k };
                    once_xml(body, &mut scratch, &mut l.kids, nest + 1);
                    c.k = scratch.k;
                }
                out.push(X::El(l));
            }
            OnceItem::Group(body) => {
                let mut g = XEl::new("g");
                once_xml(body, c, &mut g.kids, nest + 1);
                out.push(X::El(g));
            }
            OnceItem::Reuse(kind) => {
                let k = c.k;
                c.k += 1;
                if *kind == 2 {
                    // the template itself (in specs, never rendered) contains a random function: one draw per instance
                    out.push(X::El(XEl::new("reuse").a("id", format!("p{k}")).a("href", "#tplx")));
                    let v = c.rng.random_range(100..=999);
                    c.expected.push(format!("R{k}:{v}"));
                } else if *kind == 0 {
                    out.push(X::El(XEl::new("reuse").a("id", format!("p{k}")).a("href", "#tplr").a("lbl", "{{randint(100, 999)}}")));
                    let v = c.rng.random_range(100..=999);
                    c.expected.push(format!("R{k}:{v}/{v}"));
                } else {
                    out.push(X::El(XEl::new("reuse").a("id", format!("p{k}")).a("href", "#tplg").a("n", "{{randint(1, 9)}}")));
                    let v = c.rng.random_range(1..=9);
                    c.expected.push(format!("G{k}:{v}"));
                }
            }
        }
    }
}

fn collect_probes(e: &Element, prev_comment: &mut Option<String>, out: &mut Vec<String>) {
    for n in &e.children {
        match n {
            Node::Comment(c) => *prev_comment = Some(c.trim().to_string()),
            Node::El(el) => {
                let key = el.attr("data-p").map(|s| s.to_string()).or_else(|| el.attr("id").and_then(|i| i.strip_prefix('p')).filter(|r| !r.is_empty() && r.chars().all(|c| c.is_ascii_digit())).map(|s| s.to_string()));
                if let Some(k) = key.as_deref() {
                    match el.name.as_str() {
                        "text" => out.push(format!("T{k}:{}", el.text_content())),
                        "rect" => {
                            if let Some(c) = prev_comment.take().filter(|c| c.starts_with(&format!("p{k}="))) {
                                out.push(format!("C{k}:{}", c.split('=').nth(1).unwrap_or("")));
                            } else if el.has_class("tplr") || el.has_class("tplx") {
                                // reuse of the rect template: label shown twice (text + data attribute)
                                out.push(format!("R{k}:{}", el.attr("data-l").unwrap_or("?")));
                            } else if el.has_attr("data-idp") {
                                out.push(format!("I{k}:{}", el.attr("id").unwrap_or("?")));
                            } else if el.has_attr("data-two") {
                                out.push(format!("Y{k}:{},{}", el.attr("x").unwrap_or("0"), el.attr("y").unwrap_or("0")));
                            } else {
                                out.push(format!("X{k}:{}", el.attr("x").unwrap_or("0")));
                            }
                        }
                        "g" => {
                            let n = el.descendants().iter().filter(|d| d.name == "circle").count();
                            out.push(format!("G{k}:{n}"));
                        }
                        _ => {}
                    }
                    if el.name != "g" {
                        *prev_comment = None;
                        continue;
                    }
                }
                *prev_comment = None;
                collect_probes(el, prev_comment, out);
            }
            Node::Text(t) if t.trim().is_empty() => {}
            _ => *prev_comment = None,
        }
    }
}

// --------------------------------------------------------------------------- property

impl Property for C14 {
    type Case = Case;
    fn id(&self) -> &'static str {
        "C14"
    }
    fn rule(&self) -> String {
        "three families. (1) expressions: 12-24 random ASTs per document (depth <= 5 quick / 7 thorough) over decimal literals, scalar and list variables, unary minus, * / % + -, comparison and logical words, redundant parentheses and 42 numeric built-ins with type- and arity-correct arguments, printed with minimal parentheses and random whitespace and placed in one of six contexts each (text, geometry attribute, <var> then probed, _ comment, <loop count>, <if test>); \
         oracle = reference evaluator in the harness working op by op in f32 (Euclidean remainder, 0/1 for comparisons and logic, list flattening, trigonometry in degrees), printed values compared with tolerance 0.0011, non-finite results by kind; expressions the reference rejects (e.g. select out of range) are left out. \
         (2) once-ness: documents without forward references with random()/randint() occurrences in text, geometry, var, comment, loop counts, nested loops/ifs/groups and reuse parameters under a random seed; the i-th occurrence in evaluation order must show the i-th draw of Pcg32::seed_from_u64(seed), recomputed in the harness. \
         (3) malformed: a valid expression damaged by one edit (unbalanced parenthesis, unknown function, arity +-1 for every fixed-arity function, undefined variable, dangling / missing operator, variable cycles of length 1-4) must fail the transform. \
         Non-trivial = an expression of depth >= 3 or with a function (1), >= 2 random occurrences (2), always (3); distinct by hash of the case."
            .into()
    }
    fn assumptions(&self) -> Vec<String> {
        vec![
            "mixed and/or/xor are always parenthesised and comparisons never chained (the implementation gives them one level / no chaining and nothing documents otherwise)".into(),
            "if-test values with 0 < |v| < 0.001 are not judged (the condition is evaluated on the printed 3-decimal value)".into(),
            "string functions (split, splitw, trim, join, _) are exercised by C02/C19 generators, not compared numerically here; random()/randint() only in the once-ness family".into(),
        ]
    }
    fn families(&self, tier: Tier) -> Vec<Family<Case>> {
        vec![
            Family::random("expressions", tier.n(12_000, 300_000), fam_exprs),
            Family::random("once-ness", tier.n(6_000, 30_000), fam_once),
            Family::random("malformed", tier.n(10_000, 40_000), fam_malformed),
        ]
    }
    fn judge(&self, case: &Case, _strict: bool) -> Verdict {
        match case {
            Case::Malformed { doc, what } => match transform(doc, &Cfg::plain()) {
                Outcome::Err(..) => Verdict::pass(true, vec![format!("malformed:{}", what.split(':').next().unwrap_or(""))], 1),
                Outcome::Ok(out) => Verdict::fail(format!("c14:malformed-accepted:{what}"), format!("a malformed expression yielded a value\n--- document ---\n{doc}\n--- output ---\n{out}"), vec![], 1),
                Outcome::Panic(l, m) => Verdict::fail(format!("c14:panic:{l}"), m, vec![], 1),
            },
            Case::Once { seed, items } => {
                let mut c = OnceCtx { rng: Pcg32::seed_from_u64(*seed), expected: vec![], k: 0 };
                let mut kids: Vec<X> = Vec::new();
                // templates first (in specs): a rect showing its label twice, and a group drawing $n circles
                kids.push(X::El(XEl::new("specs")
                    .kid(XEl::new("rect").a("id", "tplr").a("wh", "3").a("data-l", "$lbl/$lbl"))
                    .kid(XEl::new("g").a("id", "tplg").kid(XEl::new("loop").a("count", "$n").kid(XEl::new("circle").a("r", "1"))))));
                once_xml(items, &mut c, &mut kids, 0);
                let mut doc = XEl { name: "svg".into(), attrs: vec![], kids }.to_xml();
                let uses_random_template = doc.contains("#tplx");
                if uses_random_template {
                    doc = doc.replacen("<specs>", "<specs>\n    <rect id=\"tplx\" wh=\"3\" data-l=\"{{randint(100, 999)}}\"/>", 1);
                }
                let cfg = Cfg { seed: *seed, add_auto_styles: false, ..Cfg::default() };
                let out = match transform(&doc, &cfg) {
                    Outcome::Ok(o) => o,
                    Outcome::Err(k, m) => return Verdict::fail(format!("c14:once:transform-failed:{k}"), format!("{}\n--- document ---\n{doc}", crate::run::trunc(&m, 1200)), vec![], 1),
                    Outcome::Panic(l, m) => return Verdict::fail(format!("c14:panic:{l}"), m, vec![], 1),
                };
                let tree = match sxml::parse_tree(&out) {
                    Ok(t) => t,
                    Err(e) => return Verdict::fail("c14:output-illformed", e.to_string(), vec![], 1),
                };
                let mut got = Vec::new();
                let mut pc = None;
                collect_probes(&tree, &mut pc, &mut got);
                // compare numerically tolerant (random() is printed with 3 decimals on both sides, identical f32 -> identical text)
                if got != c.expected {
                    let idx = got.iter().zip(c.expected.iter()).position(|(a, b)| a != b).unwrap_or(got.len().min(c.expected.len()));
                    let kind = c.expected.get(idx).map(|s| &s[..1]).unwrap_or("?");
                    // narrow class for the listed finding: a random function inside a <specs> template is evaluated (and draws)
                    // when the specs block is registered, although nothing is rendered there
                    // The listed finding is exactly this: one draw is made when the <specs> block is registered (before anything
                    // else in the document), and every occurrence after it is evaluated once, as it should be. Any other
                    // sequence - e.g. an instance evaluated twice - is something else.
                    let registration_draw_only = uses_random_template && {
                        let mut c2 = OnceCtx { rng: Pcg32::seed_from_u64(*seed), expected: vec![], k: 0 };
                        let _ = c2.rng.random_range(100..=999);
                        once_xml(items, &mut c2, &mut Vec::new(), 0);
                        got == c2.expected
                    };
                    let sig = if registration_draw_only { "c14:random-stream-mismatch:random-function-in-specs-template".to_string() } else { format!("c14:random-stream-mismatch:{}", match kind { "T" => "text", "X" => "geometry", "C" => "comment", "R" | "G" => "reuse", _ => "count" }) };
                    return Verdict::fail(
                        sig,
                        format!("occurrence #{idx}: expected {:?} got {:?}\n expected sequence {:?}\n observed sequence {:?}\n--- document (seed {seed}) ---\n{doc}\n--- output ---\n{out}", c.expected.get(idx), got.get(idx), c.expected, got),
                        vec![],
                        1,
                    );
                }
                Verdict::pass(c.expected.len() >= 2, vec![format!("random-occurrences:{}", c.expected.len().min(20))], 1)
            }
            Case::Exprs { items } => {
                let vs = vars();
                let mut kids: Vec<X> = vec![X::Raw(VAR_DECL.to_string())];
                // (index, expected value, context, source text)
                let mut checks: Vec<(usize, Val, u8, String)> = Vec::new();
                let mut skipped_ref_err = 0;
                let mut deep = false;
                for (k, (a, ctx, ws)) in items.iter().enumerate() {
                    let want = match eval(a, &vs) {
                        Ok(v) => v,
                        Err(_) => {
                            skipped_ref_err += 1;
                            continue;
                        }
                    };
                    let mut w = *ws;
                    let src = print(a, &mut w);
                    let flat = want.list();
                    let scalar_finite = flat.len() == 1 && flat[0].is_finite() && flat[0].abs() < 1e6;
                    let ctx = match ctx {
                        1 | 4 if !scalar_finite => 0,
                        5 if flat.len() != 1 || (flat[0] != 0.0 && flat[0].abs() < 0.001) => 0,
                        c => *c,
                    };
                    let d = format!("{k}");
                    match ctx {
                        1 => kids.push(X::El(XEl::new("rect").a("data-k", d).a("x", format!("{{{{{src}}}}}")).a("y", "0").a("wh", "1"))),
                        2 => {
                            kids.push(X::El(XEl::new("var").a(&format!("v{k}"), format!("{{{{{src}}}}}"))));
                            kids.push(X::El(XEl::new("text").a("data-k", d).a("xy", "0 0").a("text", format!("[$v{k}]"))));
                        }
                        3 => kids.push(X::El(XEl::new("rect").a("data-k", d).a("wh", "1").a("_", format!("k{k}={{{{{src}}}}}")))),
                        4 => kids.push(X::El(XEl::new("loop").a("count", format!("{{{{floor(abs({src})) % 4}}}}")).kid(XEl::new("text").a("data-k", d).a("xy", "0 0").a("text", "i")))),
                        5 => kids.push(X::El(XEl::new("if").a("test", if ws % 2 == 0 { src.clone() } else { format!("{{{{{src}}}}}") }).kid(XEl::new("text").a("data-k", d).a("xy", "0 0").a("text", "yes")))),
                        _ => kids.push(X::El(XEl::new("text").a("data-k", d).a("xy", "0 0").a("text", format!("[{{{{{src}}}}}]")))),
                    }
                    fn depth_of(a: &Ast) -> usize {
                        match a {
                            Ast::Num(_) | Ast::Var(_) => 1,
                            Ast::Neg(e) | Ast::Paren(e) => 1 + depth_of(e),
                            Ast::Bin(_, l, r) | Ast::Cmp(_, l, r) | Ast::Logic(_, l, r) => 1 + depth_of(l).max(depth_of(r)),
                            Ast::Fun(_, v) => 1 + v.iter().map(depth_of).max().unwrap_or(0),
                        }
                    }
                    if depth_of(a) >= 3 {
                        deep = true;
                    }
                    checks.push((k, want, ctx, src));
                }
                let doc = XEl { name: "svg".into(), attrs: vec![], kids }.to_xml();
                let out = match transform(&doc, &Cfg::plain()) {
                    Outcome::Ok(o) => o,
                    Outcome::Err(k, m) => {
                        return Verdict::fail(format!("c14:valid-expression-rejected:{k}"), format!("{}\n--- document ---\n{doc}", crate::run::trunc(&m, 1500)), vec![], 1)
                    }
                    Outcome::Panic(l, m) => return Verdict::fail(format!("c14:panic:{l}"), m, vec![], 1),
                };
                let tree = match sxml::parse_tree(&out) {
                    Ok(t) => t,
                    Err(e) => return Verdict::fail("c14:output-illformed", e.to_string(), vec![], 1),
                };
                let all = tree.descendants();
                // comments by marker
                let mut comments: Vec<String> = Vec::new();
                fn walk(e: &Element, c: &mut Vec<String>) {
                    for n in &e.children {
                        match n {
                            Node::Comment(t) => c.push(t.trim().to_string()),
                            Node::El(x) => walk(x, c),
                            _ => {}
                        }
                    }
                }
                walk(&tree, &mut comments);
                for (k, want, ctx, src) in &checks {
                    let els: Vec<&&Element> = all.iter().filter(|e| e.attr("data-k") == Some(&format!("{k}"))).collect();
                    let ctxname = ["text", "geometry", "var", "comment", "loop-count", "if-test"][*ctx as usize % 6];
                    let bad = |got: String| -> Verdict {
                        let opclass = if src.contains('%') { "remainder" } else if src.contains(" and ") || src.contains(" or ") || src.contains(" xor ") { "logic" } else if src.contains('(') && src.chars().any(|c| c.is_ascii_lowercase()) { "function" } else { "arithmetic" };
                        Verdict::fail(
                            format!("c14:wrong-value:{ctxname}:{opclass}"),
                            format!("expression #{k} in {ctxname} context: {{{{{src}}}}}\n  reference value: {}\n  svgdx output   : {got}\n--- document ---\n{doc}", show(want)),
                            vec![],
                            1,
                        )
                    };
                    match ctx {
                        1 => {
                            let got = els.first().and_then(|e| e.attr("x")).unwrap_or("0").to_string();
                            if !values_match(want, &got) {
                                return bad(got);
                            }
                        }
                        3 => {
                            let got = comments.iter().find(|c| c.starts_with(&format!("k{k}="))).map(|c| c[format!("k{k}=").len()..].to_string()).unwrap_or("<no comment>".into());
                            if !values_match(want, &got) {
                                return bad(got);
                            }
                        }
                        4 => {
                            let n = (want.list()[0].abs().floor()).rem_euclid(4.0) as usize;
                            if els.len() != n {
                                return bad(format!("{} iterations (expected {n})", els.len()));
                            }
                        }
                        5 => {
                            // the printed (3-decimal) value decides
                            let truth = fstr(want.list()[0]).parse::<f32>().map(|v| v != 0.0).unwrap_or(true);
                            if (els.len() == 1) != truth {
                                return bad(format!("body rendered {} times (expected {})", els.len(), truth as u8));
                            }
                        }
                        _ => {
                            let t = els.first().map(|e| e.text_content()).unwrap_or_default();
                            let got = t.trim().trim_start_matches('[').trim_end_matches(']').to_string();
                            if !values_match(want, &got) {
                                return bad(got);
                            }
                        }
                    }
                }
                let mut labels = vec![format!("checked:{}", checks.len())];
                if skipped_ref_err > 0 {
                    labels.push("some-expressions-rejected-by-reference".into());
                }
                Verdict::pass(deep, labels, 1)
            }
        }
    }
}

#[allow(dead_code)]
fn _unused() {
    let _ = gen::LOCS;
}
