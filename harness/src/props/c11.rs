//! C11 Uniform positioning: equivalent constraints give identical geometry.

use crate::engine::{Family, Property, Tier, Verdict};
use crate::gen::{self, XEl};
use crate::model::{close, fnum};
use crate::run::{num, transform, Cfg, Outcome};
use crate::sxml;
use serde::{Deserialize, Serialize};

pub struct C11;

/// constraint kinds per axis
pub const START: u8 = 0;
pub const END: u8 = 1;
pub const CENTRE: u8 = 2;
pub const LENGTH: u8 = 3;
pub const PAIRS: [(u8, u8); 6] = [(START, END), (START, CENTRE), (END, CENTRE), (START, LENGTH), (END, LENGTH), (CENTRE, LENGTH)];

/// constraint pair of an axis; 6..=8 stand for a single constraint (start / centre / end only), which determines the
/// axis when the size is known from the other one (a circle's diameter)
pub fn pair_of(p: u8) -> (u8, u8) {
    match p {
        0..=5 => PAIRS[p as usize],
        6 => (START, START),
        7 => (CENTRE, CENTRE),
        _ => (END, END),
    }
}

#[derive(Clone, Debug, Serialize, Deserialize)]
pub struct Item {
    pub px: u8,
    pub py: u8,
    /// intended box before deltas
    pub b: [f64; 4],
    /// spelling flags: bit0 shorthand where applicable, bit1 start spelled x1/y1, bit2 length spelled as radius (circle/ellipse),
    /// bits3-4 separator (0 space, 1 comma, 2 comma-space), bit5 single value when both equal,
    /// bits6-7 how the element is written: 0 `<rect ../>`, 1 `<rect ..></rect>`, 2 `<rect ..>` newline `</rect>`, 3 with a `<title>` / `<animate>` child
    pub sp: u8,
    /// 0 none, 1 dxy, 2 dx+dy, 3 dwh, 4 dw+dh (absolute), 5 dw/dh percent
    pub delta: u8,
    pub d: [f64; 2],
}

#[derive(Clone, Debug, Serialize, Deserialize)]
pub struct Case {
    pub shape: String,
    pub items: Vec<Item>,
}

fn sep(sp: u8) -> &'static str {
    match (sp >> 3) & 3 {
        1 => ",",
        2 => ", ",
        _ => " ",
    }
}

fn pair(a: f64, b: f64, sp: u8) -> String {
    if a == b && sp & 32 != 0 {
        num(a)
    } else {
        format!("{}{}{}", num(a), sep(sp), num(b))
    }
}

/// Attributes spelling one item. Returns None when the combination is not expressible / not in the domain.
pub fn item_attrs(shape: &str, it: &Item) -> Option<Vec<(String, String)>> {
    let [x1, y1, x2, y2] = it.b;
    let (w, h) = (x2 - x1, y2 - y1);
    let (cx, cy) = ((x1 + x2) / 2.0, (y1 + y2) / 2.0);
    let (ax, bx) = pair_of(it.px);
    let (ay, by) = pair_of(it.py);
    // a single constraint on one axis: only for a circle whose diameter the other axis gives, without size deltas
    if (it.px >= 6 || it.py >= 6) && !(shape == "circle" && (it.px < 6) != (it.py < 6) && it.delta < 3 && it.sp & 4 == 0) {
        return None;
    }
    let has = |k: u8, a: u8, b: u8| a == k || b == k;
    let mut at: Vec<(String, String)> = Vec::new();
    let short = it.sp & 1 != 0;
    let x1name = it.sp & 2 != 0 || shape == "line";
    let radius = it.sp & 4 != 0 && (shape == "circle" || shape == "ellipse");
    if shape == "circle" && w != h {
        return None;
    }
    // deltas on sizes need a length constraint spelled as width/height on both axes
    if it.delta >= 3 && !(has(LENGTH, ax, bx) && has(LENGTH, ay, by) && !radius) {
        return None;
    }
    if it.delta >= 3 && (shape == "circle" || shape == "ellipse") {
        return None; // size deltas on circles / ellipses are not in the documented domain (dw/dh are undocumented "TODO" attributes)
    }
    // start
    match (has(START, ax, bx), has(START, ay, by)) {
        (true, true) if short => at.push((if x1name { "xy1" } else { "xy" }.into(), pair(x1, y1, it.sp))),
        (sx, sy) => {
            if sx {
                at.push((if x1name { "x1" } else { "x" }.into(), num(x1)));
            }
            if sy {
                at.push((if x1name { "y1" } else { "y" }.into(), num(y1)));
            }
        }
    }
    match (has(END, ax, bx), has(END, ay, by)) {
        (true, true) if short => at.push(("xy2".into(), pair(x2, y2, it.sp))),
        (sx, sy) => {
            if sx {
                at.push(("x2".into(), num(x2)));
            }
            if sy {
                at.push(("y2".into(), num(y2)));
            }
        }
    }
    match (has(CENTRE, ax, bx), has(CENTRE, ay, by)) {
        (true, true) if short => at.push(("cxy".into(), pair(cx, cy, it.sp))),
        (sx, sy) => {
            if sx {
                at.push(("cx".into(), num(cx)));
            }
            if sy {
                at.push(("cy".into(), num(cy)));
            }
        }
    }
    match (has(LENGTH, ax, bx), has(LENGTH, ay, by)) {
        (false, false) => {}
        (lx, ly) => {
            if radius {
                match shape {
                    "circle" => at.push(("r".into(), num(w / 2.0))),
                    _ => {
                        if lx && ly && !short && w == h && it.sp & 32 != 0 {
                            // one radius for both axes
                            at.push(("r".into(), num(w / 2.0)));
                        } else if lx && ly && short {
                            at.push(("rxy".into(), pair(w / 2.0, h / 2.0, it.sp)));
                        } else {
                            if lx {
                                at.push(("rx".into(), num(w / 2.0)));
                            }
                            if ly {
                                at.push(("ry".into(), num(h / 2.0)));
                            }
                        }
                    }
                }
            } else if lx && ly && short {
                at.push(("wh".into(), pair(w, h, it.sp)));
            } else {
                if lx {
                    at.push(("width".into(), num(w)));
                }
                if ly {
                    at.push(("height".into(), num(h)));
                }
            }
        }
    }
    let [d0, d1] = it.d;
    match it.delta {
        1 => at.push(("dxy".into(), pair(d0, d1, it.sp))),
        2 => {
            at.push(("dx".into(), num(d0)));
            at.push(("dy".into(), num(d1)));
        }
        3 => at.push(("dwh".into(), pair(d0.abs(), d1.abs(), it.sp))),
        4 => {
            at.push(("dw".into(), num(d0.abs())));
            at.push(("dh".into(), num(d1.abs())));
        }
        5 => {
            at.push(("dw".into(), "50%".into()));
            at.push(("dh".into(), "200%".into()));
        }
        _ => {}
    }
    Some(at)
}

/// Intended final box (after deltas).
pub fn expected_box(it: &Item) -> [f64; 4] {
    let [mut x1, mut y1, mut x2, mut y2] = it.b;
    let (ax, bx) = pair_of(it.px);
    let (ay, by) = pair_of(it.py);
    let grow = |s: &mut f64, e: &mut f64, a: u8, b: u8, nl: f64| {
        // which anchor stays fixed is the axis's other constraint
        let other = if a == LENGTH { b } else { a };
        match other {
            START => *e = *s + nl,
            END => *s = *e - nl,
            _ => {
                let c = (*s + *e) / 2.0;
                *s = c - nl / 2.0;
                *e = c + nl / 2.0;
            }
        }
    };
    let (w, h) = (x2 - x1, y2 - y1);
    match it.delta {
        1 | 2 => {
            x1 += it.d[0];
            x2 += it.d[0];
            y1 += it.d[1];
            y2 += it.d[1];
        }
        3 | 4 => {
            grow(&mut x1, &mut x2, ax, bx, w + it.d[0].abs());
            grow(&mut y1, &mut y2, ay, by, h + it.d[1].abs());
        }
        5 => {
            grow(&mut x1, &mut x2, ax, bx, w * 0.5);
            grow(&mut y1, &mut y2, ay, by, h * 2.0);
        }
        _ => {}
    }
    [x1, y1, x2, y2]
}

const ALL_GEOM: &[&str] = &["x", "y", "x1", "y1", "x2", "y2", "cx", "cy", "r", "rx", "ry", "width", "height", "xy", "cxy", "xy1", "xy2", "wh", "rxy", "dx", "dy", "dxy", "dw", "dh", "dwh", "xy-loc"];

fn native(shape: &str) -> &'static [&'static str] {
    match shape {
        "rect" => &["x", "y", "width", "height"],
        "circle" => &["cx", "cy", "r"],
        "ellipse" => &["cx", "cy", "rx", "ry"],
        _ => &["x1", "y1", "x2", "y2"],
    }
}

fn boxes(seed: u64, k: usize, square: bool) -> [f64; 4] {
    // deterministic boxes on a 1/4 grid: negative, fractional coordinates
    let mut s = crate::engine::splitmix(seed ^ (k as u64).wrapping_mul(0x9E37));
    let mut next = |lim: i64| {
        s = crate::engine::splitmix(s);
        ((s % (2 * lim as u64 * 4 + 1)) as i64 - lim * 4) as f64 / 4.0
    };
    let x1 = next(60);
    let y1 = next(60);
    let w = (next(20).abs() + 0.5).max(0.5);
    let h = if square { w } else { (next(20).abs() + 0.25).max(0.25) };
    [x1, y1, x1 + w, y1 + h]
}

fn enumerate(tier: Tier, seed: u64) -> Vec<Case> {
    let reps = tier.n(6, 120);
    let mut cases = Vec::new();
    for shape in ["rect", "circle", "ellipse", "line"] {
        let mut items: Vec<Item> = Vec::new();
        let mut k = 0usize;
        for px in 0..9u8 {
            for py in 0..9u8 {
                for sp in 0..64u8 {
                    if (sp >> 3) & 3 == 3 {
                        continue;
                    }
                    for delta in 0..6u8 {
                        for rep in 0..reps {
                            k += 1;
                            let mut b = boxes(seed ^ rep as u64, k, shape == "circle");
                            if sp & 32 != 0 && rep % 2 == 0 {
                                // make "both values equal" reachable for the one-value spelling
                                let side = b[2] - b[0];
                                b = [b[0], b[0], b[0] + side, b[0] + side];
                            }
                            // lines have a direction: also right-to-left / bottom-to-top ones (where no length is involved)
                            if shape == "line" && rep % 3 == 1 && px < 3 && py < 3 {
                                if k % 2 == 0 {
                                    b.swap(0, 2);
                                }
                                if k % 3 != 0 {
                                    b.swap(1, 3);
                                }
                            }
                            let d = [((k % 9) as f64 - 4.0) / 2.0 + 0.25, ((k % 7) as f64 - 3.0) / 4.0];
                            // the same element in its three spellings (XML: an empty-element tag and a start/end tag pair are
                            // the same element; white space alone between the tags of a shape is formatting)
                            let sp = sp | (match k % 7 { 1 => 1u8, 3 => 2, 5 => 3, _ => 0 }) << 6;
                            let it = Item { px, py, b, sp, delta, d };
                            if item_attrs(shape, &it).is_some() {
                                items.push(it);
                            }
                            if items.len() == 40 {
                                cases.push(Case { shape: shape.to_string(), items: std::mem::take(&mut items) });
                            }
                        }
                    }
                }
            }
        }
        if !items.is_empty() {
            cases.push(Case { shape: shape.to_string(), items });
        }
    }
    cases
}

impl Property for C11 {
    type Case = Case;
    fn id(&self) -> &'static str {
        "C11"
    }
    fn rule(&self) -> String {
        "bounded-exhaustive over the discrete part: shapes {rect, circle, ellipse, line} x the 6x6 per-axis constraint pairs from {start, end, centre, length} x spellings (longhand; every applicable shorthand xy cxy xy1 xy2 wh rxy; x vs x1; width vs r/rx/ry; one value vs two; space, comma, comma-space) x deltas (none, dxy, dx+dy, dwh, dw+dh absolute, dw/dh percent where the axis has a length spelled width/height); \
         boxes are drawn per combination from a seeded sequence on a 1/4 grid (negative, fractional; squares for circles), 2 boxes per combination quick / 120 thorough; 40 items share one document. \
         Oracle: the output element carries exactly its shape's native geometry attributes with the values of the intended box (tolerance 0.0011), line direction as given by start/end, and no other geometry or shorthand attribute is left behind. \
         Non-trivial = the per-axis pairs are not the shape's native pair written longhand; distinct by hash of the case."
            .into()
    }
    fn assumptions(&self) -> Vec<String> {
        vec![
            "size deltas (dw/dh/dwh) are only generated for rect and line, where both axes have a length constraint spelled width/height/wh (their effect without an explicit length, or on circles/ellipses, is not defined by the documentation)".into(),
            "circles are only given square boxes".into(),
        ]
    }
    fn families(&self, tier: Tier) -> Vec<Family<Case>> {
        let seed = std::env::var("VERIF_SEED").ok().and_then(|s| s.trim().parse::<i64>().ok()).unwrap_or(0) as u64;
        vec![Family::enumerated("constraint-pairs-x-spellings", enumerate(tier, seed))]
    }
    fn judge(&self, case: &Case, _strict: bool) -> Verdict {
        let mut els = Vec::new();
        for (i, it) in case.items.iter().enumerate() {
            let at = match item_attrs(&case.shape, it) {
                Some(a) => a,
                None => continue,
            };
            let mut e = XEl::new(&case.shape).a("id", format!("i{i}"));
            for (k, v) in at {
                e.set(&k, v);
            }
            match it.sp >> 6 {
                1 => e.kids.push(gen::X::Raw(String::new())),
                2 => e.kids.push(gen::X::Raw("\n  ".into())),
                // a shape may hold descriptive or animation elements: it is laid out all the same
                3 => e.kids.push(gen::X::Raw(if i % 2 == 0 { "<title>tip</title>" } else { "<animate attributeName=\"opacity\" to=\"0.5\" dur=\"1s\"/>" }.into())),
                _ => {}
            }
            els.push(e);
        }
        let doc = gen::svg_root(els).to_xml();
        let out = match transform(&doc, &Cfg::plain()) {
            Outcome::Ok(o) => o,
            Outcome::Err(k, m) => return Verdict::fail(format!("c11:transform-failed:{k}"), format!("{}\n--- document ---\n{doc}", crate::run::trunc(&m, 1500)), vec![], 1),
            Outcome::Panic(l, m) => return Verdict::fail(format!("c11:panic:{l}"), m, vec![], 1),
        };
        let tree = match sxml::parse_tree(&out) {
            Ok(t) => t,
            Err(e) => return Verdict::fail("c11:output-illformed", e.to_string(), vec![], 1),
        };
        let mut nontrivial = false;
        for (i, it) in case.items.iter().enumerate() {
            let src = doc.lines().find(|l| l.contains(&format!("id=\"i{i}\""))).unwrap_or("").trim().to_string();
            let el = match tree.find_id(&format!("i{i}")) {
                Some(e) => e,
                None => return Verdict::fail("c11:element-missing", format!("{src} not in output"), vec![], 1),
            };
            let [x1, y1, x2, y2] = expected_box(it);
            let want: Vec<(&str, f64)> = match case.shape.as_str() {
                "rect" => vec![("x", x1), ("y", y1), ("width", x2 - x1), ("height", y2 - y1)],
                "circle" => vec![("cx", (x1 + x2) / 2.0), ("cy", (y1 + y2) / 2.0), ("r", (x2 - x1) / 2.0)],
                "ellipse" => vec![("cx", (x1 + x2) / 2.0), ("cy", (y1 + y2) / 2.0), ("rx", (x2 - x1) / 2.0), ("ry", (y2 - y1) / 2.0)],
                _ => vec![("x1", x1), ("y1", y1), ("x2", x2), ("y2", y2)],
            };
            let pairs = format!("{:?}x{:?}", pair_of(it.px), pair_of(it.py));
            for (k, v) in &want {
                // x / y / cx / cy default to 0 when absent
                let got = fnum(el, k).or(if v.abs() < 1e-9 && matches!(*k, "x" | "y" | "cx" | "cy" | "x1" | "y1" | "x2" | "y2") { Some(0.0) } else { None });
                match got {
                    Some(g) if close(g, *v, 1) => {}
                    _ => {
                        return Verdict::fail(
                            format!("c11:wrong-geometry:{}:{}", case.shape, if it.delta == 0 { "plain" } else if it.delta <= 2 { "dxy" } else { "dwh" }),
                            format!("{src}\n  pairs {pairs}: expected {k}={} but output element is <{} {:?}>", num(*v), el.name, el.attrs),
                            vec![],
                            1,
                        )
                    }
                }
            }
            for (k, _) in &el.attrs {
                if ALL_GEOM.contains(&k.as_str()) && !native(&case.shape).contains(&k.as_str()) {
                    return Verdict::fail(format!("c11:leftover-attribute:{}:{k}", case.shape), format!("{src}\n  output element still carries '{k}': {:?}", el.attrs), vec![], 1);
                }
            }
            let native_pair = match case.shape.as_str() {
                "rect" => (3, 3),
                "line" => (0, 0),
                _ => (5, 5),
            };
            if (it.px, it.py) != native_pair || it.sp & 1 != 0 || it.delta != 0 {
                nontrivial = true;
            }
        }
        Verdict::pass(nontrivial, vec![format!("shape:{}", case.shape)], 1)
    }
}
