//! C08 Root extent: viewBox, width and height enclose exactly the drawn content.

use crate::engine::{Family, Property, Tier, Verdict};
use crate::gen::{self, XEl, X};
use crate::model::{apply_transform, fnum, fnum0, out_bbox, BBox};
use crate::run::{num, transform, Cfg, Outcome};
use crate::sxml::{self, Element, Node};
use proptest::collection::vec;
use proptest::prelude::*;
use serde::{Deserialize, Serialize};

pub struct C08;

#[derive(Clone, Debug, Serialize, Deserialize)]
pub struct Case {
    pub doc: String,
    /// absolute boxes of <box> elements (invisible, not in the output) incl. the transforms of their enclosing groups: [x1,y1,x2,y2]
    pub boxes: Vec<[f64; 4]>,
    pub border: u16,
    pub scale: f32,
    pub root_w: Option<String>,
    pub root_h: Option<String>,
    pub root_vb: Option<String>,
    pub root_version: bool,
    /// how border / scale reach the transform: 0 API configuration; 1 one <config> element; 2 API + an unrelated <config>;
    /// 3 two <config> elements (one setting each); 4 <config> overriding different API values
    #[serde(default)]
    pub via: u8,
}

#[derive(Clone, Debug)]
struct P {
    kind: u8,
    n: [f64; 6],
    f: u16,
    r: u8,
}

fn pk() -> impl Strategy<Value = P> {
    (0u8..24, [gen::nice(60).boxed(), gen::nice(60).boxed(), gen::nice_pos(30).boxed(), gen::nice_pos(30).boxed(), gen::nice(20).boxed(), gen::nice(20).boxed()], any::<u16>(), any::<u8>())
        .prop_map(|(kind, n, f, r)| P { kind, n, f, r })
}

struct B {
    next_id: usize,
    boxes: Vec<[f64; 4]>,
    defs: Vec<XEl>,
    clip_ids: Vec<String>,
    use_targets: Vec<String>,
    later: Vec<XEl>,
}

fn xf_txt(p: &P) -> Option<(String, f64, f64, f64, f64)> {
    // returns transform text plus its (sx, sy, tx, ty) as applied to a box: translate(tx,ty) scale(sx,sy)
    let sx = [1.0, 2.0, 0.5, -1.0, 1.5, -0.5][(p.f >> 3) as usize % 6];
    let sy = if p.f & 0x400 != 0 { [1.0, 3.0, -2.0, 0.25][(p.f >> 6) as usize % 4] } else { sx };
    match p.f % 6 {
        0 => None,
        1 => Some((format!("translate({} {})", num(p.n[4]), num(p.n[5])), 1.0, 1.0, p.n[4], p.n[5])),
        2 => Some((format!("translate({})", num(p.n[4])), 1.0, 1.0, p.n[4], 0.0)),
        3 => Some((if sx == sy { format!("scale({})", num(sx)) } else { format!("scale({}, {})", num(sx), num(sy)) }, sx, sy, 0.0, 0.0)),
        4 => Some((format!("translate({}, {}) scale({} {})", num(p.n[4]), num(p.n[5]), num(sx), num(sy)), sx, sy, p.n[4], p.n[5])),
        // rotate / skew are documented as ignored by the layout
        _ => Some((format!("rotate({}) translate({} {})", num(p.n[0]), num(p.n[4]), num(p.n[5])), 1.0, 1.0, p.n[4], p.n[5])),
    }
}

fn build(picks: &[P], b: &mut B, depth: usize, xf: &dyn Fn(BBox) -> BBox) -> Vec<XEl> {
    let mut out = Vec::new();
    let mut i = 0;
    while i < picks.len() {
        let p = &picks[i];
        i += 1;
        let id = format!("e{}", b.next_id);
        b.next_id += 1;
        let (x, y, w, h) = (p.n[0], p.n[1], p.n[2], p.n[3]);
        let el_xf = |e: &mut XEl, p: &P| {
            if p.f % 7 == 3 {
                if let Some((t, ..)) = xf_txt(&P { kind: 0, n: p.n, f: p.f / 7, r: 0 }) {
                    e.set("transform", t);
                }
            }
        };
        match p.kind {
            0..=3 => {
                let mut e = XEl::new("rect").a("id", id).a("xy", format!("{} {}", num(x), num(y))).a("wh", format!("{} {}", num(w), num(h)));
                if p.f % 5 == 0 {
                    // shape text placed far outside the shape must not count
                    e.set("text", "label");
                    e.set("text-loc", gen::LOCS[(p.f >> 4) as usize % 9]);
                    e.add_class("d-text-outside");
                    e.set("text-offset", "50");
                } else if p.f % 5 == 1 && !b.clip_ids.is_empty() {
                    e.set("clip-path", url_ref(&b.clip_ids[p.r as usize % b.clip_ids.len()], p.f / 5));
                } else {
                    el_xf(&mut e, p);
                }
                out.push(e);
            }
            4 | 5 => {
                let mut e = XEl::new("circle").a("id", id).a("cxy", format!("{} {}", num(x), num(y))).a("r", num(w / 2.0));
                el_xf(&mut e, p);
                out.push(e);
            }
            6 => out.push(XEl::new("ellipse").a("id", id).a("cxy", format!("{} {}", num(x), num(y))).a("rxy", format!("{} {}", num(w / 2.0), num(h / 2.0)))),
            7 => {
                // (horizontal and vertical ones - boxes without thickness - included; they can be clipped like anything else)
                let (dx, dy) = match p.f % 7 {
                    1 => (p.n[4], 0.0),
                    2 => (0.0, p.n[5]),
                    _ => (p.n[4], p.n[5]),
                };
                let mut e = XEl::new("line").a("id", id).a("xy1", format!("{} {}", num(x), num(y))).a("xy2", format!("{} {}", num(x + dx), num(y + dy)));
                if p.f % 3 == 1 && !b.clip_ids.is_empty() {
                    e.set("clip-path", url_ref(&b.clip_ids[p.r as usize % b.clip_ids.len()], p.f / 3));
                }
                out.push(e);
            }
            8 => out.push(XEl::new("polyline").a("id", id).a("points", format!("{} {} {} {} {} {}", num(x), num(y), num(x + w), num(y + p.n[5]), num(x + p.n[4]), num(y + h)))),
            9 => out.push(XEl::new("polygon").a("id", id).a("points", format!("{},{} {},{} {},{}", num(x), num(y), num(x + w), num(y), num(x + p.n[4]), num(y + h)))),
            10 | 11 => {
                let d = match p.f % 4 {
                    0 => format!("M{} {} L{} {} L{} {} Z", num(x), num(y), num(x + w), num(y + p.n[5]), num(x + p.n[4]), num(y + h)),
                    1 => format!("M {} {} h {} v {} H {} z", num(x), num(y), num(w), num(h), num(x + p.n[4])),
                    2 => format!("M {} {} l {} {} l {} {} V {}", num(x), num(y), num(w), num(p.n[5]), num(p.n[4]), num(h), num(y - 1.0)),
                    3 => format!("M{} {} h{} M{} {} h{} v{} z l{} {}", num(x), num(y), num(w), num(x + p.n[4]), num(y + p.n[5]), num(w), num(h), num(-w / 2.0), num(h + 3.0)),
                    4 => format!("M{} {} {} {} m{} {} {} 0 z l{} {} Z", num(x), num(y), num(x + w), num(y), num(p.n[4]), num(p.n[5]), num(w), num(-w), num(h)),
                    _ => format!("m {} {} {} {} {} {}", num(x), num(y), num(w), num(h), num(p.n[4]), num(p.n[5])),
                };
                out.push(XEl::new("path").a("id", id).a("d", d));
            }
            12 => out.push(XEl::new("image").a("id", id).a("xy", format!("{} {}", num(x), num(y))).a("wh", format!("{} {}", num(w), num(h))).a("href", "pic.png")),
            13 => {
                let mut t = XEl::new("text").a("id", id).a("xy", format!("{} {}", num(x), num(y)));
                if p.f % 3 == 0 {
                    t.set("text", "standalone");
                } else if p.f % 3 == 1 {
                    t.kids.push(X::Text("standalone content".into()));
                } else {
                    // a standalone text element whose content is given as tspans (written as in plain SVG, with x / y): still
                    // anchored at that point
                    t.attrs.retain(|(k, _)| k != "xy");
                    t.set("x", num(x));
                    t.set("y", num(y));
                    t.kids.push(X::El(XEl::new("tspan").text("first")));
                    t.kids.push(X::El(XEl::new("tspan").a("dy", "1.2em").text("second")));
                }
                out.push(t);
            }
            14 => {
                out.push(XEl::new("box").a("id", id).a("xy", format!("{} {}", num(x), num(y))).a("wh", format!("{} {}", num(w), num(h))));
                let bx = xf(BBox::xywh(x, y, w, h));
                b.boxes.push([bx.x1, bx.y1, bx.x2, bx.y2]);
            }
            15 => out.push(XEl::new("point").a("id", id).a("xy", format!("{} {}", num(x * 5.0), num(y * 5.0)))),
            16 => {
                // content of defs / specs / symbol adds nothing
                let inner = XEl::new("rect").a("id", format!("d{id}")).a("xy", format!("{} {}", num(x * 9.0), num(y * 9.0))).a("wh", "500 400");
                match p.f % 3 {
                    0 if p.f & 0x40 != 0 && !b.use_targets.is_empty() => {
                        // a link in a chain of uses: refers to an earlier target and adds an offset of its own
                        let prev = b.use_targets[p.r as usize % b.use_targets.len()].clone();
                        // (written with the SVG 1.1 spelling of the reference now and then)
                        let mut u = if p.r % 3 != 0 {
                            XEl::new("use").a("id", format!("d{id}")).a("xmlns:xlink", "http://www.w3.org/1999/xlink").a("xlink:href", format!("#{prev}"))
                        } else {
                            XEl::new("use").a("id", format!("d{id}")).a("href", format!("#{prev}"))
                        };
                        if p.f & 0x80 != 0 {
                            u.set("x", num(p.n[4]));
                        }
                        if p.f & 0x100 != 0 {
                            u.set("y", num(p.n[5]));
                        }
                        b.defs.push(u);
                        b.use_targets.push(format!("d{id}"));
                    }
                    0 => {
                        b.use_targets.push(format!("d{id}"));
                        b.defs.push(XEl::new("rect").a("id", format!("d{id}")).a("xy", format!("{} {}", num(p.n[4]), num(p.n[5]))).a("wh", format!("{} {}", num(w), num(h))));
                    }
                    1 => out.push(XEl::new("specs").kid(inner)),
                    _ => out.push(XEl::new("symbol").a("id", format!("sym{id}")).kid(inner)),
                }
            }
            17 => {
                if b.use_targets.is_empty() {
                    // nothing to refer to so far: declare a target
                    b.use_targets.push(format!("d{id}t"));
                    b.defs.push(XEl::new("rect").a("id", format!("d{id}t")).a("xy", format!("{} {}", num(p.n[4]), num(p.n[5]))).a("wh", format!("{} {}", num(w), num(h))));
                }
                if !b.use_targets.is_empty() {
                    let mut t = b.use_targets[p.r as usize % b.use_targets.len()].clone();
                    if p.f & 0x200 != 0 {
                        // through a link of its own: a <use> of the target (in defs) which adds an offset
                        let link = format!("d{id}l");
                        let mut l = XEl::new("use").a("id", link.clone());
                        if p.f & 0x400 != 0 {
                            l.set("xmlns:xlink", "http://www.w3.org/1999/xlink");
                            l.set("xlink:href", format!("#{t}"));
                        } else {
                            l.set("href", format!("#{t}"));
                        }
                        if p.f & 0x80 != 0 {
                            l.set("x", num(p.n[4]));
                        }
                        if p.f & 0x100 != 0 || p.f & 0x80 == 0 {
                            l.set("y", num(p.n[5]));
                        }
                        b.defs.push(l);
                        t = link;
                    }
                    let t = &t;
                    let mut u = if p.r % 2 == 0 {
                        XEl::new("use").a("id", id).a("xmlns:xlink", "http://www.w3.org/1999/xlink").a("xlink:href", format!("#{t}"))
                    } else {
                        XEl::new("use").a("id", id).a("href", format!("#{t}"))
                    };
                    match p.f % 3 {
                        0 => {
                            u.set("x", num(x));
                            u.set("y", num(y));
                        }
                        1 => u.set("x", num(x)),
                        _ => {}
                    }
                    out.push(u);
                }
            }
            18 => {
                let cid = format!("clip{id}");
                let mut cp = XEl::new("clipPath").a("id", cid.clone());
                cp.kids.push(X::El(XEl::new("rect").a("xy", format!("{} {}", num(x), num(y))).a("wh", format!("{} {}", num(w + 5.0), num(h + 5.0)))));
                if p.f % 2 == 0 {
                    cp.kids.push(X::El(XEl::new("circle").a("cxy", format!("{} {}", num(x + p.n[4]), num(y + p.n[5]))).a("r", num(w / 2.0))));
                }
                b.defs.push(cp);
                b.clip_ids.push(cid);
            }
            19..=21 if depth < 3 => {
                let k = (p.r as usize % 4).min(picks.len() - i);
                let mut g = XEl::new("g").a("id", id);
                let t = xf_txt(p);
                let (sx, sy, tx, ty) = t.as_ref().map(|t| (t.1, t.2, t.3, t.4)).unwrap_or((1.0, 1.0, 0.0, 0.0));
                if let Some((txt, ..)) = &t {
                    g.set("transform", txt.clone());
                }
                let inner = move |bb: BBox| -> BBox {
                    let (xa, xb) = (bb.x1 * sx + tx, bb.x2 * sx + tx);
                    let (ya, yb) = (bb.y1 * sy + ty, bb.y2 * sy + ty);
                    BBox::new(xa.min(xb), ya.min(yb), xa.max(xb), ya.max(yb))
                };
                let composed = |bb: BBox| xf(inner(bb));
                let boxes_before = b.boxes.len();
                let kids = build(&picks[i..i + k], b, depth + 1, &composed);
                i += k;
                // (invisible <box> elements are tracked by the generator, which does not model clipping: no clip on such groups)
                if p.f % 11 == 0 && t.is_none() && !b.clip_ids.is_empty() && b.boxes.len() == boxes_before {
                    g.set("clip-path", url_ref(&b.clip_ids[p.r as usize % b.clip_ids.len()], p.f / 11));
                }
                g.kids = kids.into_iter().map(X::El).collect();
                out.push(g);
            }
            22 => {
                // positioned by forward reference: resolved on a later pass
                let anchor = format!("late{id}");
                out.push(XEl::new("rect").a("id", id).a("xy", format!("#{anchor}|{} {}", ["h", "H", "v", "V"][p.f as usize % 4], num(p.n[4].abs()))).a("wh", format!("{} {}", num(w), num(h))));
                b.later.push(XEl::new("circle").a("id", anchor).a("cxy", format!("{} {}", num(x), num(y))).a("r", num(h / 2.0)));
            }
            23 => {
                // elements rendered by a loop: every pass contributes to the extent
                let n = 1 + (p.f >> 2) as usize % 4;
                let step = [7.0, -5.5, 12.25, 0.0][(p.f >> 5) as usize % 4];
                let v = format!("lv{id}");
                let body = |var: &str| XEl::new("rect").a("xy", format!("{{{{${var} * {} + {}}}}} {}", num(step), num(x), num(y))).a("wh", format!("{} {}", num(w), num(h)));
                let inc = XEl::new("var").a(&v, format!("{{{{${v} + 1}}}}"));
                match p.f % 4 {
                    0 => out.push(XEl::new("loop").a("count", n.to_string()).a("loop-var", v.clone()).kid(body(&v))),
                    1 => {
                        out.push(XEl::new("var").a(&v, "0"));
                        out.push(XEl::new("loop").a("while", format!("lt(${v}, {n})")).kid(body(&v)).kid(inc));
                    }
                    2 => {
                        out.push(XEl::new("var").a(&v, "0"));
                        out.push(XEl::new("loop").a("until", format!("ge(${v}, {n})")).kid(body(&v)).kid(inc));
                    }
                    _ => out.push(XEl::new("for").a("data", (0..n).map(|i| i.to_string()).collect::<Vec<_>>().join(", ")).a("var", v.clone()).kid(body(&v))),
                }
            }
            _ => {
                out.push(XEl::new("a").a("href", "#top").kid(XEl::new("rect").a("id", id).a("xy", format!("{} {}", num(x), num(y))).a("wh", format!("{} {}", num(w), num(h)))));
            }
        }
        // svgdx's own <box> and <point> written with separate start and end tags
        if p.r % 9 == 5 {
            if let Some(e) = out.last_mut() {
                if e.kids.is_empty() && matches!(e.name.as_str(), "box" | "point") {
                    e.kids.push(X::Raw(if p.r % 2 == 0 { "" } else { "\n  " }.into()));
                }
            }
        }
        // a shape may hold descriptive or animation elements: it is rendered, and counts, all the same
        if p.r % 9 == 4 {
            if let Some(e) = out.last_mut() {
                if e.kids.is_empty() && e.get("text").is_none() && matches!(e.name.as_str(), "rect" | "circle" | "ellipse" | "line" | "polyline" | "polygon" | "path" | "image") {
                    e.kids.push(X::Raw(if p.r % 2 == 0 { "<title>tip</title>" } else { "<desc>more</desc><set attributeName=\"opacity\" to=\"0.5\"/>" }.into()));
                }
            }
        }
    }
    out
}

fn unit_val(v: f64, u: u8) -> String {
    format!("{}{}", num(v), ["", "mm", "cm", "in", "px", "%", "em"][u as usize % 7])
}

fn fam_docs(_t: Tier) -> BoxedStrategy<Case> {
    (vec(pk(), 1..12), 0u16..41, prop_oneof![Just(1.0f32), Just(0.5), Just(1.5), Just(2.5), Just(10.0)], 0u8..8, any::<u8>(), gen::nice_pos(300), gen::nice_pos(200), any::<bool>(), any::<bool>(), 0u8..8)
        .prop_map(|(picks, border, scale, subset, unit, rw, rh, version, empty, via)| {
            let mut b = B { next_id: 0, boxes: vec![], defs: vec![], clip_ids: vec![], use_targets: vec![], later: vec![] };
            // declare clip paths and use targets first so they can be used by the elements
            let (mut pre, rest): (Vec<P>, Vec<P>) = picks.into_iter().partition(|p| p.kind == 18 || (p.kind == 16 && p.f % 3 == 0));
            pre.extend(rest);
            let picks = if empty && pre.len() > 3 { pre.into_iter().filter(|p| matches!(p.kind, 15 | 16 | 18)).collect() } else { pre };
            let id = |bb: BBox| bb;
            let mut els = build(&picks, &mut b, 0, &id);
            let mut root = XEl::new("svg");
            let root_w = if subset & 1 != 0 { Some(unit_val(rw, unit)) } else { None };
            let root_h = if subset & 2 != 0 { Some(unit_val(rh, unit / 7)) } else { None };
            let root_vb = if subset & 4 != 0 { Some(format!("{} {} {} {}", num(-rw / 4.0), num(-rh / 4.0), num(rw), num(rh))) } else { None };
            if version {
                root.set("version", "1.1");
            }
            if let Some(w) = &root_w {
                root.set("width", w.clone());
            }
            if let Some(h) = &root_h {
                root.set("height", h.clone());
            }
            if let Some(v) = &root_vb {
                root.set("viewBox", v.clone());
            }
            let via = if via >= 5 { 0 } else { via };
            let sc = format!("{scale}");
            match via {
                1 | 4 => root.kids.push(X::El(XEl::new("config").a("border", border.to_string()).a("scale", sc.clone()))),
                2 => root.kids.push(X::El(XEl::new("config").a(["add-auto-styles", "seed", "font-size", "theme"][(unit % 4) as usize], ["false", "7", "4", "dark"][(unit % 4) as usize]))),
                3 => {
                    root.kids.push(X::El(XEl::new("config").a("border", border.to_string())));
                    root.kids.push(X::El(XEl::new("config").a("scale", sc.clone())));
                }
                _ => {}
            }
            if !b.defs.is_empty() {
                let mut d = XEl::new("defs");
                d.kids = std::mem::take(&mut b.defs).into_iter().map(X::El).collect();
                root.kids.push(X::El(d));
            }
            els.extend(std::mem::take(&mut b.later));
            root.kids.extend(els.into_iter().map(X::El));
            if root.kids.is_empty() {
                // a content-free root is written as <svg ...>\n</svg> (an empty-element root tag with its own
                // width/height is sized like a nested <svg> element; that corner is not part of the statement)
                root.kids.push(X::Raw("\n".into()));
            }
            Case { doc: root.to_xml(), boxes: b.boxes, border, scale, root_w, root_h, root_vb, root_version: version, via }
        })
        .boxed()
}

// --------------------------------------------------------------------------- oracle: recompute E from the output

fn path_box(d: &str) -> Option<BBox> {
    // M/L/H/V/Z absolute and relative only (the generator emits nothing else)
    let toks: Vec<String> = {
        let mut v = Vec::new();
        let mut cur = String::new();
        for c in d.chars() {
            if c.is_ascii_alphabetic() {
                if !cur.is_empty() {
                    v.push(std::mem::take(&mut cur));
                }
                v.push(c.to_string());
            } else if c.is_whitespace() || c == ',' {
                if !cur.is_empty() {
                    v.push(std::mem::take(&mut cur));
                }
            } else {
                cur.push(c);
            }
        }
        if !cur.is_empty() {
            v.push(cur);
        }
        v
    };
    let mut i = 0;
    let mut cmd = 'M';
    let (mut x, mut y) = (0.0, 0.0);
    let mut start: Option<(f64, f64)> = None;
    let mut bb: Option<BBox> = None;
    let mut first = true;
    // the coordinate pair that follows a moveto letter starts a new subpath (closepath returns there)
    let mut fresh = true;
    let add = |x: f64, y: f64, bb: &mut Option<BBox>| {
        let p = BBox::new(x, y, x, y);
        *bb = Some(bb.map(|b| b.union(&p)).unwrap_or(p));
    };
    while i < toks.len() {
        let t = &toks[i];
        if t.len() == 1 && t.chars().next().unwrap().is_ascii_alphabetic() {
            cmd = t.chars().next().unwrap();
            fresh = true;
            i += 1;
            if cmd == 'Z' || cmd == 'z' {
                if let Some((sx, sy)) = start {
                    x = sx;
                    y = sy;
                    add(x, y, &mut bb);
                }
            }
            continue;
        }
        let n = |k: usize| toks.get(i + k).and_then(|s| s.parse::<f64>().ok());
        match cmd {
            'M' | 'L' => {
                x = n(0)?;
                y = n(1)?;
                i += 2;
            }
            'm' | 'l' => {
                if first && cmd == 'm' {
                    x = n(0)?;
                    y = n(1)?;
                } else {
                    x += n(0)?;
                    y += n(1)?;
                }
                i += 2;
            }
            'H' => {
                x = n(0)?;
                i += 1;
            }
            'h' => {
                x += n(0)?;
                i += 1;
            }
            'V' => {
                y = n(0)?;
                i += 1;
            }
            'v' => {
                y += n(0)?;
                i += 1;
            }
            _ => return None,
        }
        first = false;
        if start.is_none() || (fresh && matches!(cmd, 'M' | 'm')) {
            start = Some((x, y));
        }
        fresh = false;
        add(x, y, &mut bb);
    }
    bb
}

/// a reference in CSS url() notation: the address may be quoted, and padded with white space inside the parentheses
fn url_ref<T: Into<u64>>(id: &str, sel: T) -> String {
    match sel.into() % 6 {
        1 => format!("url('#{id}')"),
        2 => format!("url(\"#{id}\")"),
        3 => format!("url( #{id} )"),
        4 => format!("url( '#{id}' )"),
        _ => format!("url(#{id})"),
    }
}

struct Ctx<'a> {
    root: &'a Element,
}

impl<'a> Ctx<'a> {
    fn clip_box(&self, url: &str) -> Option<BBox> {
        let id = url.trim().strip_prefix("url(")?.strip_suffix(')')?.trim().trim_matches(['\'', '"']).trim().strip_prefix('#')?;
        let cp = self.root.find_id(id)?;
        let mut u: Option<BBox> = None;
        for k in cp.child_elements() {
            if let Some(b) = self.own_box(k) {
                u = Some(u.map(|x| x.union(&b)).unwrap_or(b));
            }
        }
        u
    }

    /// box of one element in its parent's coordinate system (own transform and clip applied)
    fn own_box(&self, e: &Element) -> Option<BBox> {
        let raw = match e.name.as_str() {
            "defs" | "symbol" | "clipPath" | "style" | "title" | "desc" | "marker" | "pattern" | "mask" | "linearGradient" => return None,
            "g" | "a" | "svg" => {
                let mut u: Option<BBox> = None;
                for k in e.child_elements() {
                    if let Some(b) = self.own_box(k) {
                        u = Some(u.map(|x| x.union(&b)).unwrap_or(b));
                    }
                }
                u?
            }
            "text" => {
                // generated shape text carries no id; stand-alone text elements were given one by the generator
                e.attr("id")?;
                BBox::new(fnum0(e, "x"), fnum0(e, "y"), fnum0(e, "x"), fnum0(e, "y"))
            }
            "path" => path_box(e.attr("d")?)?,
            "use" => {
                let t = self.root.find_id(e.attr("href").or(e.attr("xlink:href"))?.strip_prefix('#')?)?;
                let tb = self.own_box_of_target(t)?;
                tb.translate(fnum0(e, "x"), fnum0(e, "y"))
            }
            _ => out_bbox(e)?,
        };
        let mut b = raw;
        if let Some(t) = e.attr("transform") {
            b = apply_transform(&b, t);
        }
        if let Some(c) = e.attr("clip-path") {
            if let Some(cb) = self.clip_box(c) {
                b = b.intersect(&cb)?;
            }
        }
        Some(b)
    }

    fn own_box_of_target(&self, t: &Element) -> Option<BBox> {
        // a use target lives in defs: compute its box as if it were rendered
        match t.name.as_str() {
            "g" => {
                let mut u: Option<BBox> = None;
                for k in t.child_elements() {
                    if let Some(b) = self.own_box(k) {
                        u = Some(u.map(|x| x.union(&b)).unwrap_or(b));
                    }
                }
                let mut b = u?;
                if let Some(tr) = t.attr("transform") {
                    b = apply_transform(&b, tr);
                }
                Some(b)
            }
            _ => self.own_box(t),
        }
    }
}

fn split_unit(s: &str) -> Option<(f64, String)> {
    let idx = s.find(|c: char| !(c.is_ascii_digit() || c == '.' || c == '-')).unwrap_or(s.len());
    Some((s[..idx].parse().ok()?, s[idx..].to_string()))
}

impl Property for C08 {
    type Case = Case;
    fn id(&self) -> &'static str {
        "C08"
    }
    fn rule(&self) -> String {
        "cases = root <svg> documents of 1-12 picks over rect, circle, ellipse, line, polyline, polygon, path (M L H V Z, absolute and relative), image, use of a defs target, stand-alone text, invisible <box>, <point>, shape text pushed far outside its shape, defs / specs / symbol content, groups nested up to 3 deep with translate / scale (negative and non-uniform factors; rotate present but documented as ignored), per-element transforms, clip-path references (on shapes and groups) to clipPaths in defs, elements positioned by forward reference, <a> wrappers, content-free documents; \
         x border 0..40, scale {0.5, 1, 1.5, 2.5, 10} x the 8 subsets of {width, height, viewBox} on the root with units {none, mm, cm, in, px, %, em} x version present or not. \
         Oracle: E is recomputed from the parsed OUTPUT (each rendered element's box from its own native attributes, through its transform / clip and those of its enclosing groups; defs/symbol content, generated shape text and points skipped; the generator's <box> boxes added), grown by the border and rounded outward (either neighbour accepted when within 0.001 of an integer); \
         expected root: viewBox = E and width/height = size x scale in mm when none supplied, supplied values verbatim, one supplied dimension determines the other from E's aspect with the same unit, version/xmlns added only when missing, no extent attributes when E is empty. \
         Non-trivial = >= 2 element kinds and at least one of transform, clip, use, forward reference, negative or fractional coordinate; distinct by hash of the case."
            .into()
    }
    fn assumptions(&self) -> Vec<String> {
        vec![
            "non-rendered containers (clipPath, marker, pattern, mask) are only placed inside defs; transform and clip-path are not combined on one element (their order is not specified)".into(),
            "use targets are rects in defs (use of circles/ellipses is covered by C04)".into(),
        ]
    }
    fn families(&self, tier: Tier) -> Vec<Family<Case>> {
        vec![Family::random("documents", tier.n(40_000, 750_000), fam_docs)]
    }
    fn judge(&self, case: &Case, _strict: bool) -> Verdict {
        let cfg = match case.via {
            1 | 3 => Cfg { add_auto_styles: false, ..Cfg::default() },
            4 => Cfg { border: case.border / 2 + 1, scale: 3.0, add_auto_styles: false, ..Cfg::default() },
            _ => Cfg { border: case.border, scale: case.scale, add_auto_styles: false, ..Cfg::default() },
        };
        let out = match transform(&case.doc, &cfg) {
            Outcome::Ok(o) => o,
            Outcome::Err(k, m) => return Verdict::fail(format!("c08:transform-failed:{k}"), format!("{}\n--- document ---\n{}", crate::run::trunc(&m, 1500), case.doc), vec![], 1),
            Outcome::Panic(l, m) => return Verdict::fail(format!("c08:panic:{l}"), m, vec![], 1),
        };
        let tree = match sxml::parse_tree(&out) {
            Ok(t) => t,
            Err(e) => return Verdict::fail("c08:output-illformed", e.to_string(), vec![], 1),
        };
        let root = match sxml::root_svg(&tree) {
            Some(r) => r,
            None => return Verdict::fail("c08:no-root", out, vec![], 1),
        };
        let ctx = Ctx { root };
        let mut e_box: Option<BBox> = None;
        for k in root.child_elements() {
            if let Some(b) = ctx.own_box(k) {
                e_box = Some(e_box.map(|x| x.union(&b)).unwrap_or(b));
            }
        }
        for b in &case.boxes {
            let b = BBox::new(b[0], b[1], b[2], b[3]);
            e_box = Some(e_box.map(|x| x.union(&b)).unwrap_or(b));
        }
        let show = || format!("--- document ---\n{}\n--- config: border {} scale {} ---\n--- output ---\n{}", case.doc, case.border, case.scale, out);
        // version / xmlns
        if root.attr("xmlns") != Some("http://www.w3.org/2000/svg") || root.attr("version").is_none() {
            return Verdict::fail("c08:version-or-xmlns-missing", show(), vec![], 1);
        }
        // supplied attributes verbatim
        for (k, v) in [("width", &case.root_w), ("height", &case.root_h), ("viewBox", &case.root_vb)] {
            if let Some(v) = v {
                if root.attr(k) != Some(v.as_str()) {
                    return Verdict::fail(format!("c08:supplied-{k}-not-verbatim"), format!("author wrote {k}=\"{v}\", output has {:?}\n{}", root.attr(k), show()), vec![], 1);
                }
            }
        }
        let kinds: std::collections::HashSet<&str> = root.descendants().iter().map(|e| e.name.as_str()).collect();
        let features = case.doc.contains("transform=") || case.doc.contains("clip-path=") || case.doc.contains("<use") || case.doc.contains("#late") || case.doc.contains("=\"-") || case.doc.contains(".5") || case.doc.contains(".25");
        let nontrivial = kinds.len() >= 3 && features;
        let mut labels = vec![];
        for (pat, l) in [("transform=\"scale(-", "negative-scale"), ("transform=", "transform"), ("clip-path=", "clip"), ("<use", "use"), ("xlink:href=\"#d", "use-xlink"), ("<title>", "child-elements"), ("#late", "forward-ref"), ("<box", "box"), ("<path", "path")] {
            if case.doc.contains(pat) {
                labels.push(l.to_string());
            }
        }
        labels.push(format!("root-attrs:{}{}{}", if case.root_w.is_some() { "w" } else { "" }, if case.root_h.is_some() { "h" } else { "" }, if case.root_vb.is_some() { "v" } else { "" }));
        let e_box = match e_box {
            None => {
                // nothing rendered: no extent attributes are synthesised
                for k in ["width", "height", "viewBox"] {
                    let supplied = match k {
                        "width" => case.root_w.is_some(),
                        "height" => case.root_h.is_some(),
                        _ => case.root_vb.is_some(),
                    };
                    if !supplied && root.has_attr(k) {
                        return Verdict::fail(format!("c08:extent-for-empty-content:{k}"), show(), vec![], 1);
                    }
                }
                labels.push("empty-extent".into());
                return Verdict::pass(true, labels, 1);
            }
            Some(b) => b,
        };
        let bd = case.border as f64;
        let grown = BBox::new(e_box.x1 - bd, e_box.y1 - bd, e_box.x2 + bd, e_box.y2 + bd);
        // outward rounding, tolerant near integers
        let lo = |v: f64| -> Vec<f64> {
            let f = v.floor();
            if (v - f) < 0.0015 { vec![f, f - 1.0] } else if (f + 1.0 - v) < 0.0015 { vec![f, f + 1.0] } else { vec![f] }
        };
        let hi = |v: f64| -> Vec<f64> {
            let c = v.ceil();
            if (c - v) < 0.0015 { vec![c, c + 1.0] } else if (v - (c - 1.0)) < 0.0015 { vec![c, c - 1.0] } else { vec![c] }
        };
        let (x1s, y1s, x2s, y2s) = (lo(grown.x1), lo(grown.y1), hi(grown.x2), hi(grown.y2));
        // the viewBox that the synthesised attributes are based on
        let vb: Option<Vec<f64>> = if case.root_vb.is_none() {
            let v: Vec<f64> = root.attr("viewBox").unwrap_or("").split_whitespace().filter_map(|s| s.parse().ok()).collect();
            if v.len() != 4 {
                return Verdict::fail("c08:viewbox-missing", format!("expected a viewBox for extent {grown:?}\n{}", show()), vec![], 1);
            }
            let ok = x1s.iter().any(|a| (a - v[0]).abs() < 1e-6) && y1s.iter().any(|a| (a - v[1]).abs() < 1e-6) && x2s.iter().any(|a| (a - (v[0] + v[2])).abs() < 1e-6) && y2s.iter().any(|a| (a - (v[1] + v[3])).abs() < 1e-6);
            if !ok {
                let what = if (v[2] - (x2s[0] - x1s[0])).abs() < 1e-6 && (v[3] - (y2s[0] - y1s[0])).abs() < 1e-6 { "origin" } else { "size" };
                return Verdict::fail(
                    format!("c08:viewbox-wrong:{what}"),
                    format!("content extent {e_box:?} + border {bd} = {grown:?}; expected viewBox {} {} {} {}, output has {:?}\n{}", x1s[0], y1s[0], x2s[0] - x1s[0], y2s[0] - y1s[0], root.attr("viewBox"), show()),
                    labels,
                    1,
                );
            }
            Some(v)
        } else {
            None
        };
        // width / height
        let (ew, eh) = match &vb {
            Some(v) => (vec![v[2]], vec![v[3]]),
            None => (x2s.iter().flat_map(|b| x1s.iter().map(move |a| b - a)).collect::<Vec<_>>(), y2s.iter().flat_map(|b| y1s.iter().map(move |a| b - a)).collect::<Vec<_>>()),
        };
        let got_w = root.attr("width").and_then(split_unit);
        let got_h = root.attr("height").and_then(split_unit);
        // a degenerate extent (zero width or height) has no aspect ratio: a single supplied dimension cannot determine
        // the other; all that is demanded is that no non-finite value is emitted
        if (ew.iter().any(|w| *w == 0.0) || eh.iter().any(|h| *h == 0.0)) && (case.root_w.is_some() != case.root_h.is_some()) {
            for k in ["width", "height"] {
                if let Some(v) = root.attr(k) {
                    if !matches!(split_unit(v), Some((x, _)) if x.is_finite()) {
                        return Verdict::fail("c08:non-finite-dimension", format!("{k}=\"{v}\"\n{}", show()), labels, 1);
                    }
                }
            }
            labels.push("degenerate-extent".into());
            return Verdict::pass(true, labels, 1);
        }
        let relclose = |a: f64, b: f64| (a - b).abs() <= 0.0011 + 1.5e-3 * b.abs().min(1.0) + 2e-6 * b.abs();
        match (&case.root_w, &case.root_h) {
            (None, None) => {
                let sc = case.scale as f64;
                let okw = matches!(&got_w, Some((v, u)) if u == "mm" && ew.iter().any(|w| relclose(*v, w * sc)));
                let okh = matches!(&got_h, Some((v, u)) if u == "mm" && eh.iter().any(|h| relclose(*v, h * sc)));
                if !okw || !okh {
                    return Verdict::fail("c08:width-height-wrong:synthesised", format!("expected {}mm x {}mm (extent {} x {} times scale {sc}), output has width={:?} height={:?}\n{}", ew[0] * sc, eh[0] * sc, ew[0], eh[0], root.attr("width"), root.attr("height"), show()), labels, 1);
                }
            }
            (Some(w), None) => {
                let (wv, wu) = split_unit(w).unwrap_or((0.0, String::new()));
                let ok = matches!(&got_h, Some((v, u)) if *u == wu && ew.iter().any(|ew1| eh.iter().any(|eh1| (v - wv * eh1 / ew1).abs() <= 0.0011 + 1e-3 * (wv * eh1 / ew1).abs())));
                if !ok {
                    return Verdict::fail("c08:width-height-wrong:derived-height", format!("width {w} supplied, extent {} x {}: expected height {}{wu}, output has {:?}\n{}", ew[0], eh[0], wv * eh[0] / ew[0], root.attr("height"), show()), labels, 1);
                }
            }
            (None, Some(h)) => {
                let (hv, hu) = split_unit(h).unwrap_or((0.0, String::new()));
                let ok = matches!(&got_w, Some((v, u)) if *u == hu && ew.iter().any(|ew1| eh.iter().any(|eh1| (v - hv * ew1 / eh1).abs() <= 0.0011 + 1e-3 * (hv * ew1 / eh1).abs())));
                if !ok {
                    return Verdict::fail("c08:width-height-wrong:derived-width", format!("height {h} supplied, extent {} x {}: expected width {}{hu}, output has {:?}\n{}", ew[0], eh[0], hv * ew[0] / eh[0], root.attr("width"), show()), labels, 1);
                }
            }
            (Some(_), Some(_)) => {}
        }
        let _ = fnum;
        let _ = Node::Text(String::new());
        Verdict::pass(nontrivial, labels, 1)
    }
}
