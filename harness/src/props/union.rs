//! Union of the per-property svgdx document generators, used by checks that
//! quantify over "all svgdx documents" (C05, C06).

use crate::engine::Tier;
use crate::gen::{self, DocOpts};
use proptest::prelude::*;

pub fn svgdx_docs(_t: Tier) -> BoxedStrategy<String> {
    prop_oneof![
        2 => crate::props::c02::hostile_rooted_doc(),
        2 => gen::docgen(DocOpts::all(), 10, gen::benign_text().boxed()),
    ]
    .boxed()
}
