//! Union of the per-property svgdx document generators, used by checks that
//! quantify over "all svgdx documents" (C05, C06).

use crate::engine::Tier;
use crate::gen::{self, DocOpts};
use proptest::prelude::*;

/// Attributes an author may put on the root element (each subset matters to root synthesis).
pub fn root_attrs() -> BoxedStrategy<String> {
    (any::<u16>(), gen::nice_pos(300), gen::nice_pos(300))
        .prop_map(|(m, w, h)| {
            let mut s = String::new();
            let unit = ["", "mm", "cm", "in", "px", "%", "em"][(m >> 12) as usize % 7];
            if m & 1 != 0 {
                s.push_str(" version=\"1.1\"");
            }
            if m & 2 != 0 {
                s.push_str(&format!(" width=\"{}{unit}\"", crate::run::num(w)));
            }
            if m & 4 != 0 {
                s.push_str(&format!(" height=\"{}{unit}\"", crate::run::num(h)));
            }
            if m & 8 != 0 {
                s.push_str(&format!(" viewBox=\"0 0 {} {}\"", crate::run::num(w), crate::run::num(h)));
            }
            if m & 16 != 0 {
                s.push_str(" id=\"root\"");
            }
            if m & 32 != 0 {
                s.push_str(" class=\"diagram d-text-small\"");
            }
            if m & 64 != 0 {
                s.push_str(" style=\"background: #eee\"");
            }
            if m & 128 != 0 {
                s.push_str(" xmlns:xlink=\"http://www.w3.org/1999/xlink\"");
            }
            if m & 256 != 0 {
                s.push_str(" data-note=\"a &amp; b\"");
            }
            if m & 512 != 0 {
                s.push_str(" preserveAspectRatio=\"xMidYMid meet\"");
            }
            s
        })
        .boxed()
}

/// Add author attributes to the (non-namespaced) root <svg> of a document.
pub fn with_root_attrs(doc: String, attrs: &str) -> String {
    if let Some(rest) = doc.strip_prefix("<svg>") {
        format!("<svg{attrs}>{rest}")
    } else if let Some(rest) = doc.strip_prefix("<svg/>") {
        format!("<svg{attrs}/>{rest}")
    } else {
        doc
    }
}

pub fn svgdx_docs(_t: Tier) -> BoxedStrategy<String> {
    let base = prop_oneof![
        2 => crate::props::c02::hostile_rooted_doc(),
        2 => gen::docgen(DocOpts::all(), 10, gen::benign_text().boxed()),
    ];
    (base, root_attrs(), prop::bool::weighted(0.6)).prop_map(|(d, a, on)| if on { with_root_attrs(d, &a) } else { d }).boxed()
}
