//! C18 Reuse instantiates templates as if written out by hand (translation validation).

use crate::engine::{Family, Property, Tier, Verdict};
use crate::gen::{XEl, X};
use crate::run::{num, transform, Cfg, Outcome};
use crate::sxml::{self, Element, Node};
use proptest::collection::vec;
use proptest::prelude::*;
use serde::{Deserialize, Serialize};

pub struct C18;

#[derive(Clone, Debug, Serialize, Deserialize)]
pub struct Inst {
    /// template: 0 rect, 1 circle, 2 group, 3 symbol, 4 nested group, 5 inline rect (rendered itself too);
    /// fixed-size ones: 6 rect, 7 circle, 8 ellipse, 9 group, 13 circle given by wh (all in specs), 10 group in <defs>;
    /// 11 group whose first child refers to a later child of the same template by id, 12 group with parameter defaults on itself
    pub tpl: u8,
    pub w: f64,
    pub h: f64,
    pub label: String,
    pub cls: String,
    pub id: bool,
    pub xy: Option<(f64, f64)>,
    pub style: Option<String>,
    pub class: Option<String>,
    /// a transform attribute on the reuse element
    #[serde(default)]
    pub xf: Option<String>,
    /// placed relative to the anchor rect #base instead of by x / y (fixed-size shape templates only): (direction, gap)
    #[serde(default)]
    pub rel: Option<(u8, f64)>,
}

#[derive(Clone, Debug, Serialize, Deserialize)]
pub struct Case {
    pub insts: Vec<Inst>,
    /// where the specs block goes: 0 first, 1 last (templates after use), 2 in the middle
    pub specs_at: u8,
    /// where the inline template goes relative to its uses: false before, true after
    pub inline_after: bool,
}

const LABELS: [&str; 7] = ["hi", "A & B", "two words", "x<y", "7", "Zed", ""];
const CLASSES: [&str; 5] = ["d-red", "thin", "d-fill-blue", "k1 k2", "d-dash"];

const XFS: [&str; 4] = ["rotate(30)", "scale(2)", "translate(3, -1) rotate(-90)", "skewX(10)"];
const DIRS: [&str; 4] = ["h", "H", "v", "V"];

fn inst() -> impl Strategy<Value = Inst> {
    (0u8..18, crate::gen::nice_pos(12), crate::gen::nice_pos(8), 0..LABELS.len(), 0..CLASSES.len(), any::<bool>(), prop::option::of((crate::gen::nice(40), crate::gen::nice(40))), any::<u8>(), any::<u8>(), crate::gen::nice_pos(6))
        .prop_map(|(tpl, w, h, l, c, id, xy, m, m2, gap)| Inst {
            tpl,
            w: w.max(1.0),
            h: h.max(1.0),
            label: LABELS[l].to_string(),
            cls: CLASSES[c].split(' ').next().unwrap().to_string(),
            id,
            xy,
            style: if m & 1 != 0 { Some("stroke: green; opacity: 0.5".to_string()) } else { None },
            class: if m & 2 != 0 { Some(CLASSES[(m >> 2) as usize % CLASSES.len()].to_string()) } else { None },
            xf: if m2 % 3 == 0 { Some(XFS[(m2 / 3) as usize % XFS.len()].to_string()) } else { None },
            rel: if matches!(tpl, 6..=8 | 13) && m2 % 2 == 1 { Some(((m2 / 2) % 4, gap)) } else { None },
        })
}

fn fam_docs(_t: Tier) -> BoxedStrategy<Case> {
    (vec(inst(), 1..7), 0u8..3, any::<bool>()).prop_map(|(insts, specs_at, inline_after)| Case { insts, specs_at, inline_after }).boxed()
}

// --------------------------------------------------------------------------- templates

fn templates() -> XEl {
    XEl::new("specs")
        .kid(XEl::new("rect").a("id", "tr").a("wh", "$w $h").a("text", "$label").a("class", "base"))
        .kid(XEl::new("circle").a("id", "tc").a("r", "$w").a("class", "$cls"))
        // a group that counts up a document-level variable for itself: every instance starts from the document's value
        .kid(XEl::new("g").a("id", "tx").kid(XEl::new("var").a("cnt", "{{$cnt + 1}}")).kid(XEl::new("rect").a("wh", "{{$cnt * 5}} 2")))
        // a group whose own attribute is computed from a parameter: bound once, when the instance is made
        .kid(XEl::new("g").a("id", "tv").a("w2", "{{$w + 1}}").kid(XEl::new("var").a("w", "50")).kid(XEl::new("rect").a("wh", "$w2 2")))
        // a size given by expressions which contain spaces
        .kid(XEl::new("rect").a("id", "te").a("wh", "{{$w + 1}} {{$h * 2}}").a("text", "$label"))
        .kid(XEl::new("g").a("id", "tg").kid(XEl::new("rect").a("wh", "$w 2").a("text", "$label")).kid(XEl::new("circle").a("cxy", "^@br").a("r", "1").a("class", "$cls")))
        .kid(XEl::new("symbol").a("id", "ts").kid(XEl::new("rect").a("wh", "$w $h")).kid(XEl::new("line").a("xy1", "0 0").a("xy2", "{{$w / 2}} $h")))
        .kid(
            XEl::new("g")
                .a("id", "tn")
                .kid(XEl::new("reuse").a("href", "#tr").a("w", "$w").a("h", "1").a("label", "in-$label"))
                .kid(XEl::new("reuse").a("href", "#tc").a("w", "{{$h / 2}}").a("cls", "thin").a("x", "$w").a("y", "0")),
        )
}

/// fixed-size templates (no variables): these have a size before instantiation, so instances can also be placed relatively
fn fixed_templates(t: XEl) -> XEl {
    t.kid(XEl::new("rect").a("id", "fr").a("wh", "4 2"))
        .kid(XEl::new("circle").a("id", "fc").a("r", "2"))
        // a circle given by its size rather than its radius
        .kid(XEl::new("circle").a("id", "fw").a("wh", "4"))
        .kid(XEl::new("ellipse").a("id", "fe").a("rx", "3").a("ry", "1"))
        .kid(XEl::new("g").a("id", "fg").kid(XEl::new("rect").a("wh", "6 2")).kid(XEl::new("circle").a("cx", "6").a("cy", "1").a("r", "1")))
        // a group that declares defaults for its parameters on itself: the instance's bindings take their place
        .kid(XEl::new("g").a("id", "td").a("w", "6").a("label", "dflt").kid(XEl::new("rect").a("wh", "$w 2").a("text", "$label")))
        // a reference *within* the template, to an element that comes later in it
        .kid(XEl::new("g").a("id", "tw").kid(XEl::new("rect").a("xy", "#twin|h 2").a("wh", "2")).kid(XEl::new("rect").a("id", "twin").a("xy", "0 0").a("wh", "$w 3")))
}

/// a group with fixed geometry in <defs> (emitted as it is, and laid out before any instance is made)
fn defs_template() -> XEl {
    XEl::new("defs").kid(XEl::new("g").a("id", "tf").kid(XEl::new("rect").a("width", "6").a("height", "2")).kid(XEl::new("circle").a("cx", "6").a("cy", "1").a("r", "1")))
}

fn inline_template() -> Vec<XEl> {
    vec![XEl::new("var").a("w", "4").a("h", "2").a("label", "dflt"), XEl::new("rect").a("id", "ti").a("xy", "0 0").a("wh", "$w $h").a("text", "$label").a("class", "inl")]
}

fn tpl_id(t: u8) -> &'static str {
    ["tr", "tc", "tg", "ts", "tn", "ti", "fr", "fc", "fe", "fg", "tf", "tw", "td", "fw", "te", "tx", "tv", "pv"][t as usize % 18]
}

fn reuse_xml(k: usize, i: &Inst) -> XEl {
    let mut r = XEl::new("reuse");
    if i.id {
        r.set("id", format!("i{k}"));
    }
    // (template 17: the element just before the reuse, referred to as "^" - it has an id of its own, which the instance
    // must not keep: it becomes a class like any other target id)
    r.set("href", if i.tpl % 18 == 17 { "^".to_string() } else { format!("#{}", tpl_id(i.tpl)) });
    r.set("w", num(i.w));
    r.set("h", num(i.h));
    r.set("label", i.label.clone());
    r.set("cls", i.cls.clone());
    if let Some((d, gap)) = i.rel {
        r.set("xy", format!("#base|{} {}", DIRS[d as usize % 4], num(gap)));
    } else if let Some((x, y)) = i.xy {
        r.set("x", num(x));
        r.set("y", num(y));
    }
    if let Some(s) = &i.style {
        r.set("style", s.clone());
    }
    if let Some(c) = &i.class {
        r.set("class", c.clone());
    }
    if let Some(t) = &i.xf {
        r.set("transform", t.clone());
    }
    r
}

/// the instance written out by hand
fn inline_xml(k: usize, i: &Inst) -> XEl {
    let cls = |own: &str, tid: &str| -> String {
        let mut v: Vec<String> = own.split_whitespace().map(|s| s.to_string()).collect();
        if let Some(c) = &i.class {
            v.extend(c.split_whitespace().map(|s| s.to_string()));
        }
        v.push(tid.to_string());
        v.join(" ")
    };
    let deco = |mut e: XEl, own_class: &str, tid: &str| -> XEl {
        if i.id {
            e.attrs.insert(0, ("id".into(), format!("i{k}")));
        }
        e.set("class", cls(own_class, tid));
        if let Some(s) = &i.style {
            e.set("style", s.clone());
        }
        e
    };
    let at = |mut e: XEl| -> XEl {
        if let Some((d, gap)) = i.rel {
            e.set("xy", format!("#base|{} {}", DIRS[d as usize % 4], num(gap)));
        } else if let Some((x, y)) = i.xy {
            e.set("xy", format!("{} {}", num(x), num(y)));
        }
        if let Some(t) = &i.xf {
            e.set("transform", t.clone());
        }
        e
    };
    // a group is placed by a translation, applied after (written to the right of) the instance's own transform
    let group_at = |mut g: XEl| -> XEl {
        let mut parts: Vec<String> = Vec::new();
        if let Some(t) = &i.xf {
            parts.push(t.clone());
        }
        if let Some((x, y)) = i.xy {
            if x != 0.0 || y != 0.0 {
                parts.push(format!("translate({}, {})", num(x), num(y)));
            }
        }
        if !parts.is_empty() {
            g.set("transform", parts.join(" "));
        }
        g
    };
    let fixed_group = || XEl::new("g").kid(XEl::new("rect").a("wh", "6 2")).kid(XEl::new("circle").a("cx", "6").a("cy", "1").a("r", "1"));
    match i.tpl % 18 {
        6 => deco(at(XEl::new("rect").a("wh", "4 2")), "", "fr"),
        17 => deco(at(XEl::new("rect").a("xy", "0 0").a("wh", "4 2")), "", &format!("pv{k}")),
        7 => deco(at(XEl::new("circle").a("r", "2")), "", "fc"),
        13 => deco(at(XEl::new("circle").a("wh", "4")), "", "fw"),
        14 => deco(at(XEl::new("rect").a("wh", format!("{{{{{} + 1}}}} {{{{{} * 2}}}}", num(i.w), num(i.h))).a("text", i.label.clone())), "", "te"),
        15 => deco(group_at(XEl::new("g").kid(XEl::new("rect").a("wh", "10 2"))), "", "tx"),
        16 => deco(group_at(XEl::new("g").a("w2", num(i.w + 1.0)).kid(XEl::new("rect").a("wh", format!("{} 2", num(i.w + 1.0))))), "", "tv"),
        8 => deco(at(XEl::new("ellipse").a("rx", "3").a("ry", "1")), "", "fe"),
        9 => deco(group_at(fixed_group()), "", "fg"),
        12 => deco(group_at(XEl::new("g").a("w", num(i.w)).a("label", i.label.clone()).kid(XEl::new("rect").a("wh", "$w 2").a("text", "$label"))), "", "td"),
        11 => deco(
            // (ids must be unique in a hand-written document: each copy gets its own, compared modulo that suffix)
            group_at(XEl::new("g").kid(XEl::new("rect").a("xy", format!("#twin{k}|h 2")).a("wh", "2")).kid(XEl::new("rect").a("id", format!("twin{k}")).a("xy", "0 0").a("wh", format!("{} 3", num(i.w))))),
            "",
            "tw",
        ),
        10 => deco(group_at(XEl::new("g").kid(XEl::new("rect").a("width", "6").a("height", "2")).kid(XEl::new("circle").a("cx", "6").a("cy", "1").a("r", "1"))), "", "tf"),
        0 => deco(at(XEl::new("rect").a("wh", format!("{} {}", num(i.w), num(i.h))).a("text", i.label.clone())), "base", "tr"),
        1 => deco(at(XEl::new("circle").a("r", num(i.w))), &i.cls, "tc"),
        2 => deco(
            group_at(XEl::new("g").kid(XEl::new("rect").a("wh", format!("{} 2", num(i.w))).a("text", i.label.clone())).kid(XEl::new("circle").a("cxy", "^@br").a("r", "1").a("class", i.cls.clone()))),
            "",
            "tg",
        ),
        3 => deco(
            group_at(XEl::new("g").kid(XEl::new("rect").a("wh", format!("{} {}", num(i.w), num(i.h)))).kid(XEl::new("line").a("xy1", "0 0").a("xy2", format!("{{{{{} / 2}}}} {}", num(i.w), num(i.h))))),
            "",
            "ts",
        ),
        4 => deco(
            group_at(
                XEl::new("g")
                    .kid(XEl::new("rect").a("wh", format!("{} 1", num(i.w))).a("text", format!("in-{}", i.label)).a("class", "base tr"))
                    .kid(XEl::new("circle").a("xy", format!("{} 0", num(i.w))).a("r", format!("{{{{{} / 2}}}}", num(i.h))).a("class", "thin tc")),
            ),
            "",
            "tn",
        ),
        _ => deco(
            {
                // the inline template sits at xy="0 0"; an instance without x/y keeps that position
                let e = XEl::new("rect").a("xy", "0 0").a("wh", format!("{} {}", num(i.w), num(i.h))).a("text", i.label.clone());
                at(e)
            },
            "inl",
            "ti",
        ),
    }
}

pub fn docs(c: &Case) -> (String, String) {
    let mk = |by_hand: bool| -> String {
        let mut kids: Vec<X> = Vec::new();
        let uses_inline = c.insts.iter().any(|i| i.tpl % 18 == 5);
        // (a document-level variable which one of the templates counts up locally)
        kids.push(X::El(XEl::new("var").a("cnt", "1")));
        kids.push(X::El(defs_template()));
        kids.push(X::El(XEl::new("rect").a("id", "base").a("xy", "50 50").a("wh", "10 6")));
        if c.specs_at == 0 {
            kids.push(X::El(fixed_templates(templates())));
        }
        if uses_inline && !c.inline_after {
            kids.extend(inline_template().into_iter().map(X::El));
        } else if uses_inline {
            // the variables the inline template needs must exist before anything is evaluated
            kids.push(X::El(inline_template().remove(0)));
        }
        let n = c.insts.len();
        for (k, i) in c.insts.iter().enumerate() {
            if c.specs_at == 2 && k == n / 2 {
                kids.push(X::El(fixed_templates(templates())));
            }
            // an unrelated element between instances: instances must not disturb it, nor it them
            kids.push(X::El(XEl::new("circle").a("cxy", format!("{} -20", k * 5)).a("r", "1")));
            if i.tpl % 18 == 17 {
                kids.push(X::El(XEl::new("rect").a("id", format!("pv{k}")).a("xy", "0 0").a("wh", "4 2")));
            }
            kids.push(X::El(if by_hand { inline_xml(k, i) } else { reuse_xml(k, i) }));
        }
        if uses_inline && c.inline_after {
            kids.push(X::El(inline_template().remove(1)));
        }
        if c.specs_at == 1 || (c.specs_at == 2 && n / 2 >= n) {
            kids.push(X::El(fixed_templates(templates())));
        }
        XEl { name: "svg".into(), attrs: vec![], kids }.to_xml()
    };
    (mk(false), mk(true))
}

fn canon(e: &Element, out: &mut Vec<String>) {
    let mut attrs: Vec<(String, String)> = e
        .attrs
        .iter()
        .map(|(k, v)| match k.as_str() {
            "class" => {
                let mut c: Vec<&str> = v.split_whitespace().collect();
                c.sort();
                c.dedup();
                (k.clone(), c.join(" "))
            }
            "transform" => {
                let nums: Vec<String> = v.split(|c: char| c == '(' || c == ')' || c == ',' || c.is_whitespace()).filter(|s| !s.is_empty()).map(|t| t.parse::<f64>().map(|x| format!("{x:.3}")).unwrap_or(t.to_string())).collect();
                (k.clone(), nums.join(" "))
            }
            "id" if v.starts_with("twin") => (k.clone(), "twin".to_string()),
            _ => (k.clone(), v.clone()),
        })
        .collect();
    attrs.sort();
    out.push(format!("<{} {:?}>", e.name, attrs));
    for c in &e.children {
        match c {
            Node::El(k) => canon(k, out),
            Node::Text(t) | Node::CData(t) => {
                if !t.trim().is_empty() {
                    out.push(format!("\"{}\"", t.trim()))
                }
            }
            _ => {}
        }
    }
    out.push(format!("</{}>", e.name));
}

impl Property for C18 {
    type Case = Case;
    fn id(&self) -> &'static str {
        "C18"
    }
    fn level(&self) -> &'static str {
        "translation_validation"
    }
    fn rule(&self) -> String {
        "cases = documents with six templates drawn at the origin and parameterised by variables in geometry, text and class - a rect with text, a circle whose class is a variable, a group (rect with text + circle placed relative to it), a symbol, a group of nested reuses re-binding the outer parameters, and an inline rect that is itself rendered (with global defaults) - and 1-6 instantiations with different bindings (sizes, labels incl. XML specials, classes), ids, extra classes, styles and x/y offsets; the specs block is placed first, last (templates after use) or in the middle, the inline template before or after its uses. \
         The generator emits the document and its hand-inlined twin (target copied, values substituted, reuse id / style / classes applied, target id added as class, placed at x/y: xy for a shape's top-left, translate(x, y) for a group). \
         Oracle: both transform Ok and the outputs are equal as parsed trees (whitespace-only text ignored, class lists as sets, transform numbers parsed, root attributes included); no <specs> content appears in the output. \
         Non-trivial = >= 2 instantiations with different bindings, or a nested reuse; distinct by hash of the case."
            .into()
    }
    fn assumptions(&self) -> Vec<String> {
        vec!["templates are drawn at the origin (as the statement requires for the placement rule); symbols with variables inside <defs> are not generated (defs content is evaluated in place)".into()]
    }
    fn families(&self, tier: Tier) -> Vec<Family<Case>> {
        vec![Family::random("reuse-vs-inlining", tier.n(24_000, 150_000), fam_docs)]
    }
    fn judge(&self, case: &Case, _strict: bool) -> Verdict {
        let (with_reuse, by_hand) = docs(case);
        let cfg = Cfg::plain();
        let nested = case.insts.iter().any(|i| i.tpl % 18 == 4);
        let distinct_bindings = case.insts.len() >= 2 && case.insts.windows(2).any(|w| w[0].w != w[1].w || w[0].label != w[1].label);
        let labels: Vec<String> = case.insts.iter().map(|i| format!("tpl:{}", tpl_id(i.tpl))).collect::<std::collections::BTreeSet<_>>().into_iter().collect();
        match (transform(&with_reuse, &cfg), transform(&by_hand, &cfg)) {
            (Outcome::Ok(x), Outcome::Ok(y)) => {
                let (tx, ty) = match (sxml::parse_tree(&x), sxml::parse_tree(&y)) {
                    (Ok(a), Ok(b)) => (a, b),
                    _ => return Verdict::fail("c18:output-illformed", x, labels, 2),
                };
                // specs content is never rendered
                if tx.descendants().iter().any(|e| e.name == "specs" || matches!(e.attr("id"), Some("tr" | "tc" | "tg" | "ts" | "tn"))) {
                    return Verdict::fail("c18:specs-content-rendered", format!("--- document ---\n{with_reuse}\n--- output ---\n{x}"), labels, 2);
                }
                let (mut cx, mut cy) = (Vec::new(), Vec::new());
                canon(&tx, &mut cx);
                canon(&ty, &mut cy);
                if cx == cy {
                    Verdict::pass(nested || distinct_bindings, labels, 2)
                } else {
                    let i = cx.iter().zip(cy.iter()).position(|(p, q)| p != q).unwrap_or(cx.len().min(cy.len()));
                    // is it (only) an instance of the template with an internal forward reference?
                    if case.insts.iter().any(|i| i.tpl % 18 == 11) {
                        let mut reduced = case.clone();
                        reduced.insts.retain(|i| i.tpl % 18 != 11);
                        if reduced.insts.is_empty() || self.judge(&reduced, _strict).status == crate::engine::Status::Pass {
                            let i = cx.iter().zip(cy.iter()).position(|(p, q)| p != q).unwrap_or(cx.len().min(cy.len()));
                            return Verdict::fail(
                                "c18:differs-from-inlining:template-with-internal-forward-reference",
                                format!("first difference at node {i}: reuse gives {:?}, written by hand gives {:?}\n--- with reuse ---\n{with_reuse}\n--- by hand ---\n{by_hand}\n--- reuse output ---\n{x}\n--- by-hand output ---\n{y}", cx.get(i), cy.get(i)),
                                labels,
                                2,
                            );
                        }
                    }
                    let which = if cx.len() != cy.len() { "element-count" } else if cx.get(i).map(|s| s.contains("\"class\"")).unwrap_or(false) && cy.get(i).map(|s| s.contains("\"class\"")).unwrap_or(false) { "attributes" } else { "attributes" };
                    Verdict::fail(
                        format!("c18:differs-from-inlining:{which}"),
                        format!("first difference at node {i}: reuse gives {:?}, written by hand gives {:?}\n--- with reuse ---\n{with_reuse}\n--- by hand ---\n{by_hand}\n--- reuse output ---\n{x}\n--- by-hand output ---\n{y}", cx.get(i), cy.get(i)),
                        labels,
                        2,
                    )
                }
            }
            (Outcome::Panic(l, m), _) | (_, Outcome::Panic(l, m)) => Verdict::fail(format!("c18:panic:{l}"), m, labels, 2),
            (Outcome::Err(k, m), Outcome::Ok(_)) => Verdict::fail(format!("c18:reuse-fails-but-inlining-works:{k}"), format!("{}\n--- with reuse ---\n{with_reuse}\n--- by hand ---\n{by_hand}", crate::run::trunc(&m, 1500)), labels, 2),
            (_, Outcome::Err(k, m)) => Verdict::skip(format!("hand-written-twin-fails:{k}:{}", crate::run::trunc(&m.replace('\n', " "), 200)), labels, 2),
        }
    }
}
