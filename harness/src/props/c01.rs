//! C01 Totality: every input gives a result or an error, never a crash or a hang.

use crate::engine::{Family, ParentPhase, Property, Tier, Verdict};
use crate::gen::{self, DocOpts};
use crate::run::{transform, transform_bytes, ByteOutcome, Cfg, Outcome};
use proptest::collection::vec;
use proptest::prelude::*;
use serde::{Deserialize, Serialize};
use std::sync::Arc;

pub struct C01;

#[derive(Clone, Debug, Serialize, Deserialize)]
pub enum Blob {
    T(String),
    /// hex encoded (input is not valid UTF-8)
    H(String),
}

impl Blob {
    pub fn from_bytes(b: Vec<u8>) -> Blob {
        match String::from_utf8(b) {
            Ok(s) => Blob::T(s),
            Err(e) => Blob::H(e.into_bytes().iter().map(|b| format!("{b:02x}")).collect()),
        }
    }
    pub fn bytes(&self) -> Vec<u8> {
        match self {
            Blob::T(s) => s.as_bytes().to_vec(),
            Blob::H(h) => (0..h.len() / 2).map(|i| u8::from_str_radix(&h[2 * i..2 * i + 2], 16).unwrap_or(0)).collect(),
        }
    }
}

#[derive(Clone, Debug, Serialize, Deserialize)]
pub struct Case {
    pub input: Blob,
    pub cfg: Cfg,
    pub fam: String,
    pub shape: String,
}

/// Does the document itself raise a limit above its default (outside the property's quantifier)?
pub fn raises_limits(input: &[u8]) -> bool {
    let s = String::from_utf8_lossy(input);
    for (key, dflt) in [("loop-limit", 1000u64), ("var-limit", 1024), ("depth-limit", 100)] {
        let mut rest: &str = &s;
        while let Some(i) = rest.find(key) {
            rest = &rest[i + key.len()..];
            let t = rest.trim_start();
            if let Some(t) = t.strip_prefix('=') {
                let t = t.trim_start();
                let t = t.strip_prefix(['"', '\'']).unwrap_or(t);
                let digits: String = t.chars().take_while(|c| c.is_ascii_digit()).collect();
                // anything we cannot read as a small number is treated as "raises"
                match digits.parse::<u64>() {
                    Ok(v) if v <= dflt => {}
                    _ => return true,
                }
            }
        }
    }
    false
}

// --------------------------------------------------------------------------- family 1: DocGen + near-valid damage

const JUNK: &[&str] = &[
    "", " ", "x", "#", "#nope", "^", "^|", "#e0|", "#e0@", "#e0@zz", "#e0@t:", "#e0@t:x%", "#e0~", "#e0~qq", "{{", "}}", "{{1+}}", "{{)}}",
    "$", "${", "${x", "$undefined", "1e39", "-1e39", "nan", "inf", "-inf", "1e-50", "0x10", "1,,2", ",", "%", "50%", "-", "--5", "1 2 3 4 5",
    "99999999999999999999", "url(#)", "url(#e0)", "url(#self)", "#e0 #e1 #nope", "{{1/0}}", "{{0/0}}", "{{sqrt(-1)}}", "{{randint(5,1)}}",
    "{{select(9, 1, 2)}}", "{{pow(10, 99)}}", "{{1 % 0}}", "{{'a' + 1}}", "{{swap(1)}}", "{{head()}}", "{{tail()}}", "{{split('', '')}}",
    "{{join()}}", "{{trim()}}", "{{$e0}}", "{{#e0~w}}", "{{#e0~w + #nope~h}}", "{{in(1)}}", "{{count()}}", "{{_()}}", "{{addv(1,2,3)}}", "{{scalev()}}",
];

fn damage(doc: &str, picks: &[(u16, u16)]) -> String {
    // replace the k-th attribute value by a junk token; or delete an attribute
    let mut s = doc.to_string();
    for (which, junk) in picks {
        let positions: Vec<usize> = s.match_indices("=\"").map(|(i, _)| i + 2).collect();
        if positions.is_empty() {
            break;
        }
        let start = positions[(*which as usize * positions.len()) >> 16];
        let end = s[start..].find('"').map(|e| start + e).unwrap_or(s.len());
        let j = JUNK[(*junk as usize * JUNK.len()) >> 16];
        s.replace_range(start..end, &crate::sxml::escape_attr(j));
    }
    s
}

fn fam_docgen(_t: Tier) -> BoxedStrategy<Case> {
    let opts = DocOpts { wild_refs: true, random_fns: true, ..DocOpts::all() };
    (gen::docgen(opts, 14, gen::hostile(3).boxed()), vec((any::<u16>(), any::<u16>()), 0..4), gen::cfg_small_limits(), any::<bool>())
        .prop_map(|(doc, dmg, mut cfg, small)| {
            if !small {
                cfg.loop_limit = 1000;
                cfg.var_limit = 1024;
                cfg.depth_limit = 100;
            }
            Case { input: Blob::T(damage(&doc, &dmg)), cfg, fam: "docgen-damaged".into(), shape: String::new() }
        })
        .boxed()
}

// --------------------------------------------------------------------------- family 1b: every interpreted attribute x odd values

/// every attribute name the transformer looks at (collected from its get_attr / pop_attr calls and the documentation)
const SVGDX_ATTRS: &[&str] = &[
    "xy", "cxy", "xy1", "xy2", "x", "y", "cx", "cy", "x1", "y1", "x2", "y2", "wh", "width", "height", "r", "rx", "ry", "rxy", "dx", "dy", "dxy", "dw", "dh", "dwh", "xy-loc", "text",
    "text-loc", "text-dx", "text-dy", "text-dxy", "text-offset", "text-lsp", "text-style", "start", "end", "edge-type", "corner-offset", "surround", "inside", "margin", "points", "d",
    "transform", "clip-path", "href", "xlink:href", "id", "class", "style", "_", "__", "count", "while", "until", "loop-var", "start", "step", "data", "var", "idx-var", "test", "match",
    "writing-mode", "data-src-line", "font-size", "font-family", "border", "scale", "seed", "loop-limit", "var-limit", "depth-limit", "theme", "background", "add-auto-styles",
];

const ODD_VALUES: &[&str] = &[
    "2mm", "abc", "a b", "1 x", "1,x", "x 1", "1 2mm", "t", "tl", "r:50%", "b:-3", "h", "v", "corner", "-0", "+1", ".", "1.", "e5", "1e", "1 2", "1,2", "1 2 3", "0", "-1", "0.5", "100%", "-50%",
    "#e0", "#e0|h", "#e0|V 3", "#e0@br", "#e0@t:30%", "^", "^|v 2", "#e0 #e1", "#self", "#self|h", "1e30", "-1e30", "1e-30", "1 1e39", "$k", "${k}", "{{$k * 2}}", "{{1e38 * 100}}",
    "\u{e9}", "\u{1F600}", " ", "\t", "$\u{e9}lan", "{{$\u{e9}lan + 1}}", "${gr\u{f6}\u{df}e}", "{{$\u{1F600} * 2}}", "$k\u{e9}", "{{#\u{e9}~w}}", "#\u{e9}|h", "{{\u{e9}(1)}}", "0 0", "0 0 0 0", "1 2 3 4", "50% 50%", "5 -5", "true", "false", "none", "auto", "M0 0", "0,0 1,1", "rotate(45)", "translate(1)", "scale(0)",
];

const ATTR_HOSTS: &[&str] = &[
    "rect", "circle", "ellipse", "line", "polyline", "polygon", "path", "text", "tspan", "g", "use", "reuse", "image", "box", "point", "loop", "if", "var", "for", "config", "defaults",
    "specs", "symbol", "svg", "a", "marker", "clipPath", "foreignObject", "style", "defs",
];

fn fam_attrs(_t: Tier) -> BoxedStrategy<Case> {
    let pair = (any::<u16>(), any::<u16>(), any::<bool>());
    (any::<u16>(), vec(pair, 1..4), 0u8..8, any::<bool>(), gen::cfg_small_limits(), any::<bool>())
        .prop_map(|(host, attrs, base, with_child, mut cfg, small)| {
            if !small {
                cfg.loop_limit = 1000;
                cfg.var_limit = 1024;
                cfg.depth_limit = 100;
            }
            let host = ATTR_HOSTS[(host as usize * ATTR_HOSTS.len()) >> 16];
            let mut e = format!("<{host} id=\"self\"");
            let mut used: Vec<&str> = vec!["id"];
            // a sane starting point, so that the odd value is what decides the path taken
            let basics: &[(&str, &str)] = match base {
                0 => &[("xy", "5 5"), ("wh", "10 4")],
                1 => &[("cxy", "5 5"), ("r", "3")],
                2 => &[("xy1", "0 0"), ("xy2", "10 10")],
                3 => &[("start", "#e0"), ("end", "#e1")],
                4 => &[("text", "hello\\nworld"), ("xy", "0"), ("wh", "20")],
                5 => &[("href", "#e0")],
                6 => &[("surround", "#e0 #e1")],
                _ => &[],
            };
            let mut shape = format!("attr:{host}");
            let mut odd: Vec<(&str, &str)> = Vec::new();
            for (a, v, _) in &attrs {
                let a = SVGDX_ATTRS[(*a as usize * SVGDX_ATTRS.len()) >> 16];
                let v = if (*v as usize) < 0x8000 { ODD_VALUES[(*v as usize * 2 * ODD_VALUES.len()) >> 16] } else { JUNK[((*v as usize - 0x8000) * 2 * JUNK.len()) >> 16] };
                if !used.contains(&a) {
                    used.push(a);
                    odd.push((a, v));
                }
            }
            if let Some((a, _)) = odd.first() {
                shape = format!("attr:{a}");
            }
            for (a, v) in basics {
                if !used.contains(a) {
                    used.push(a);
                    e.push_str(&format!(" {a}=\"{v}\""));
                }
            }
            for (a, v) in &odd {
                e.push_str(&format!(" {a}=\"{}\"", crate::sxml::escape_attr(v)));
            }
            if attrs.iter().any(|(_, _, t)| *t) && !used.contains(&"text") {
                e.push_str(" text=\"hi\"");
            }
            if with_child {
                e.push_str(&format!("><rect xy=\"^|h\" wh=\"2\"/>inner</{host}>"));
            } else {
                e.push_str("/>");
            }
            let doc = format!("<svg>\n<var k=\"3\"/>\n<rect id=\"e0\" xy=\"0\" wh=\"10\"/>\n<circle id=\"e1\" cxy=\"30 5\" r=\"4\"/>\n{e}\n<rect xy=\"#self|h 2\" wh=\"3\"/>\n</svg>");
            Case { input: Blob::T(doc), cfg, fam: "attr-values".into(), shape }
        })
        .boxed()
}

// --------------------------------------------------------------------------- family 2: shape parameters

fn log_uniform(max_exp: u32) -> impl Strategy<Value = usize> {
    (0..=max_exp).prop_flat_map(|e| (1usize << e)..(2usize << e))
}

const CONTAINERS: &[&str] = &["g", "a", "defs", "svg", "symbol", "text", "loop", "if", "specs", "clipPath", "marker", "foo", "reuse", "rect", "linearGradient", "switch", "for"];

const PATH_TOKENS: &[&str] = &[
    "M", "m", "L", "l", "H", "h", "V", "v", "Z", "z", "C", "c", "S", "s", "Q", "q", "T", "t", "A", "a", "B", "b", "0", "1", "-1", "5.5", ".5", "1e1", "-", ".", ",", " ", "x",
    "1 2", "3,4", "0 0 1", "#e0@c", "^@tl", "#zz", "1-2", "++", "e", "%", "\u{e9}",
];

const TRANSFORM_TOKENS: &[&str] = &[
    "translate", "scale", "rotate", "skewX", "skewY", "matrix", "(", ")", "1", "-2", "0.5", ",", " ", "1e2", "x", "()", "(1)", "(1 2)", "(1,2,3)", "(1 2 3 4 5 6)", "((", "))", "rotate(", "translate(1", "nan", "inf",
];

pub fn shape_doc(kind: u8, n: usize, sel: u16) -> (String, String) {
    let k = kind % 34;
    let rect = |v: &str| format!("<svg><rect xy=\"0\" wh=\"{}\"/></svg>", crate::sxml::escape_attr(v));
    let (name, doc): (&str, String) = match k {
        0 => ("expr.parens", rect(&format!("{{{{{}1{}}}}}", "(".repeat(n), ")".repeat(n)))),
        1 => ("expr.unary-minus", rect(&format!("{{{{{}1}}}}", "-".repeat(n)))),
        2 => ("expr.nested-fn", rect(&format!("{{{{{}1{}}}}}", "abs(".repeat(n), ")".repeat(n)))),
        3 => ("expr.op-chain", rect(&format!("{{{{1{}}}}}", [" + 1", " * 1", " - 1", " % 7", " / 2", " lt 1", " and 1"][sel as usize % 7].repeat(n)))),
        4 => ("expr.comma-list", rect(&format!("{{{{count(1{})}}}}", ", 1".repeat(n)))),
        5 => ("expr.unbalanced-open", rect(&format!("{{{{{}1}}}}", "(".repeat(n)))),
        6 => {
            // variable chain, defined in reverse so that textual substitution cannot collapse it
            let n = n.min(5000);
            let mut s = String::from("<svg>");
            for i in 0..n {
                s.push_str(&format!("<var v{}=\"$v{} + 1\"/>", i, i + 1));
            }
            s.push_str(&format!("<var v{n}=\"1\"/><rect wh=\"{{{{$v0}}}}\"/></svg>"));
            ("var.chain", s)
        }
        7 => {
            let n = n.min(50).max(1);
            let mut s = String::from("<svg>");
            for i in 0..n {
                s.push_str(&format!("<var c{}=\"$c{}\"/>", i, (i + 1) % n));
            }
            // all defined now; re-assign so that each holds a reference to the next
            for i in 0..n {
                s.push_str(&format!("<var c{}=\"\\$c{}\"/>", i, (i + 1) % n));
            }
            s.push_str("<rect wh=\"{{$c0}}\"/></svg>");
            ("var.cycle", s)
        }
        8 => {
            // (super-quadratic in the chain length: polynomial slowness is not a C01 matter, keep n small)
            let n = n.min(400);
            let mut s = String::from("<svg><rect id=\"u0\" wh=\"4\"/>");
            for i in 1..=n {
                s.push_str(&format!("<use id=\"u{}\" href=\"#u{}\" x=\"1\"/>", i, i - 1));
            }
            s.push_str(&format!("<rect xy=\"#u{n}|h\" wh=\"2\"/></svg>"));
            ("use.chain", s)
        }
        9 => {
            let n = n.min(40).max(1);
            let tag = if sel % 2 == 0 { "use" } else { "reuse" };
            let mut s = String::from("<svg>");
            for i in 0..n {
                s.push_str(&format!("<{tag} id=\"k{}\" href=\"#k{}\"/>", i, (i + 1) % n));
            }
            s.push_str("<rect xy=\"#k0|h\" wh=\"2\"/></svg>");
            ("use.cycle", s)
        }
        10 => {
            let n = n.min(2000).max(1);
            let cyc = sel % 2 == 0;
            let mut s = String::from("<svg><defs>");
            for i in 0..n {
                let next = if i + 1 < n { format!(" clip-path=\"url(#cp{})\"", i + 1) } else if cyc { " clip-path=\"url(#cp0)\"".to_string() } else { String::new() };
                s.push_str(&format!("<clipPath id=\"cp{i}\"{next}><rect wh=\"{}\"/></clipPath>", 10 + i % 7));
            }
            s.push_str("</defs><rect wh=\"50\" clip-path=\"url(#cp0)\"/><rect xy=\"^|h\" wh=\"3\"/></svg>");
            ("clip.chain", s)
        }
        11 => {
            let c = CONTAINERS[sel as usize % CONTAINERS.len()];
            let attrs = match c {
                "loop" => " count=\"1\"",
                "if" => " test=\"1\"",
                "for" => " data=\"1\" var=\"q\"",
                "reuse" => " href=\"#zz\"",
                _ => "",
            };
            let n = n.min(100_000);
            ("nesting", format!("<svg>{}<rect wh=\"1\"/>{}</svg>", format!("<{c}{attrs}>").repeat(n), format!("</{c}>").repeat(n)))
        }
        12 => {
            let mut d = String::from("M0 0");
            let mut x = sel as usize;
            for _ in 0..n.min(20_000) {
                x = x.wrapping_mul(6364136223846793005).wrapping_add(1442695040888963407);
                d.push(' ');
                d.push_str(PATH_TOKENS[(x >> 33) % PATH_TOKENS.len()]);
            }
            ("path.soup", format!("<svg><path d=\"{}\"/><rect xy=\"^|h\" wh=\"2\"/></svg>", crate::sxml::escape_attr(&d)))
        }
        13 => {
            // every command followed by {numbers, junk, nothing}
            let cmds = "MmLlHhVvZzCcSsQqTtAaBb";
            let c = cmds.chars().nth(sel as usize % cmds.len()).unwrap();
            let tail = ["", " 1", " 1 2", " 1 2 3 4", " 1 2 3 4 5 6", " 1 2 3 4 5 6 7", " x", " -", " 5 z 5", " z5", " z z 1", ",", " 1,,2"][(sel as usize / 22) % 13];
            ("path.after-command", format!("<svg><path d=\"M0 0 {c}{tail}\"/></svg>"))
        }
        14 => {
            let mut d = String::new();
            let mut x = sel as usize;
            for _ in 0..n.min(5000) {
                x = x.wrapping_mul(6364136223846793005).wrapping_add(1442695040888963407);
                d.push_str(TRANSFORM_TOKENS[(x >> 33) % TRANSFORM_TOKENS.len()]);
            }
            ("transform.soup", format!("<svg><g transform=\"{d}\"><rect wh=\"3\"/></g><rect xy=\"^|h\" wh=\"2\" transform=\"{d}\"/></svg>"))
        }
        15 => {
            let mut d = String::new();
            let mut x = sel as usize;
            for _ in 0..n.min(20_000) {
                x = x.wrapping_mul(6364136223846793005).wrapping_add(1442695040888963407);
                d.push_str(["1", " ", ",", "-2", "3.5", "x", "#a@c", "1e3", ".", "-", " 4 5 "][(x >> 33) % 11]);
            }
            ("points.soup", format!("<svg><polyline points=\"{d}\"/><polygon points=\"{d}\"/><rect xy=\"^|h\" wh=\"2\"/></svg>"))
        }
        16 => {
            let n = n.min(3000);
            let mut s = String::from("<svg><rect");
            for i in 0..n {
                s.push_str(&format!(" a{i}=\"{i}\""));
            }
            s.push_str(" wh=\"2\"/></svg>");
            ("many-attributes", s)
        }
        17 => ("huge-text", format!("<svg><text xy=\"0\">{}</text><rect wh=\"2\" text=\"{}\"/></svg>", "lorem ".repeat(n.min(300_000)), "ab ".repeat(n.min(50_000)))),
        18 => {
            let n = n.min(20_000);
            ("many-refs", format!("<svg><rect id=\"a\" wh=\"2\"/><rect surround=\"{}\"/><rect inside=\"{}\"/></svg>", "#a ".repeat(n), "#a ".repeat(n.min(100))))
        }
        19 => {
            let body = ["<rect wh=\"1\"/>", "<var q=\"1\"/>", ""][sel as usize % 3];
            match (sel / 3) % 4 {
                0 => ("loop.count", format!("<svg><loop count=\"{n}\">{body}</loop></svg>")),
                1 => ("loop.while-forever", format!("<svg><loop while=\"1\">{body}</loop></svg>")),
                2 => ("loop.until-never", format!("<svg><loop until=\"0\">{body}</loop></svg>")),
                _ => ("loop.for", format!("<svg><for data=\"1{}\" var=\"q\">{body}</for></svg>", ", 1".repeat(n.min(20_000)))),
            }
        }
        20 => {
            let inner = match sel % 3 {
                0 => "<g id=\"r\"><reuse href=\"#r\"/></g>".to_string(),
                1 => "<specs><g id=\"r\"><rect wh=\"1\"/><reuse href=\"#r\"/></g></specs><reuse href=\"#r\"/>".to_string(),
                _ => "<g id=\"p\"><reuse href=\"#q\"/></g><g id=\"q\"><reuse href=\"#p\"/></g>".to_string(),
            };
            ("reuse.recursion", format!("<svg>{inner}</svg>"))
        }
        21 => {
            let v = ["1e38", "-1e38", "3.4e38", "1e39", "nan", "inf", "-inf", "1e-45", "16777217", "-0"][sel as usize % 10];
            ("extreme-numbers", format!("<svg><rect id=\"a\" xy=\"{v} {v}\" wh=\"{v}\"/><rect xy=\"#a|h {v}\" wh=\"#a 200%\"/><circle cxy=\"#a@br {v}\" r=\"{v}\"/><line start=\"#a\" end=\"{v} 0\"/><g transform=\"scale({v}) translate({v})\"><rect wh=\"1\"/></g></svg>"))
        }
        22 => {
            let n = n.min(20_000);
            ("many-lines", format!("<svg><rect wh=\"20\" text=\"{}\" class=\"d-text-pre d-text-vertical\"/></svg>", "a\\n".repeat(n)))
        }
        23 => {
            let n = n.min(5000);
            let mut s = String::from("<svg>");
            let el = ["<text>a</text>", "<defs></defs>", "<g/>", "<rect wh=\"1\"/>", "<g><rect wh=\"1\"/></g>", "<linearGradient><stop/></linearGradient>"][sel as usize % 6];
            for _ in 0..n {
                s.push_str(el);
            }
            s.push_str("</svg>");
            ("flat-siblings", s)
        }
        24 => {
            // forward reference chain: quadratic retry work, kept small
            let n = n.min(150).max(1);
            let mut s = String::from("<svg>");
            for i in 0..n {
                s.push_str(&format!("<rect id=\"f{}\" xy=\"#f{}|h 1\" wh=\"2\"/>", i, i + 1));
            }
            s.push_str(&format!("<rect id=\"f{n}\" wh=\"2\"/></svg>"));
            ("forward-chain", s)
        }
        25 => {
            let n = n.min(30).max(1);
            // mutual / cyclic element references in several spellings
            let mut s = String::from("<svg>");
            for i in 0..n {
                let j = (i + 1) % n;
                s.push_str(&match sel % 4 {
                    0 => format!("<rect id=\"y{i}\" xy=\"#y{j}|h\" wh=\"2\"/>"),
                    1 => format!("<rect id=\"y{i}\" surround=\"#y{j}\"/>"),
                    2 => format!("<rect id=\"y{i}\" wh=\"#y{j}\" xy=\"#y{j}@br\"/>"),
                    _ => format!("<line id=\"y{i}\" start=\"#y{j}\" end=\"#y{i}\"/>"),
                });
            }
            s.push_str("</svg>");
            ("ref.cycle", s)
        }
        26 => {
            let n = n.min(100_000);
            ("long-name", format!("<svg><{} x=\"1\"/><rect id=\"{}\" wh=\"1\"/><rect xy=\"#{}|h\" wh=\"1\" class=\"{}\"/></svg>", "n".repeat(n), "i".repeat(n), "i".repeat(n), "c ".repeat(n.min(20_000))))
        }
        27 => {
            // self references
            let v = ["xy=\"#s|h\"", "wh=\"#s\"", "surround=\"#s\"", "inside=\"#s\"", "cxy=\"#s@c\"", "x=\"{{#s~x2}}\"", "text=\"{{#s~w}}\"", "clip-path=\"url(#s)\""][sel as usize % 8];
            ("ref.self", format!("<svg><rect id=\"s\" wh=\"3\" {v}/><rect xy=\"^|v\" wh=\"1\"/></svg>"))
        }
        28 => {
            let n = n.min(400);
            // var growth by self-concatenation inside a loop
            ("var.growth", format!("<svg><var s=\"ab\"/><loop count=\"{n}\"><var s=\"$s$s\"/></loop><text text=\"$s\"/></svg>"))
        }
        30 => {
            // every built-in function with hostile numeric arguments (NaN, infinities, huge, negative zero) at arities 0..4
            let f = FUNS[sel as usize % FUNS.len()];
            let mut x = (sel as usize) * 2654435761 + n;
            let arity = x % 5;
            let mut args = Vec::new();
            for _ in 0..arity {
                x = x.wrapping_mul(6364136223846793005).wrapping_add(1442695040888963407);
                args.push(ARGS[(x >> 33) % ARGS.len()]);
            }
            ("fn.hostile-args", format!("<svg><rect wh=\"3\" text=\"{{{{{f}({})}}}}\"/><rect xy=\"{{{{{f}({})}}}} 0\" wh=\"2\"/></svg>", args.join(", "), args.join(", ")))
        }
        31 => {
            // recursion that amplifies a value at every level (reuse attributes are variables too)
            let body = match sel % 3 {
                0 => "<specs><g id=\"x\"><rect wh=\"1\" text=\"$a\"/><reuse href=\"#x\" a=\"$a$a\"/></g></specs><reuse href=\"#x\" a=\"ab\"/>",
                1 => "<specs><g id=\"x\"><reuse href=\"#x\" a=\"$a$a$a\" b=\"$a\"/></g></specs><reuse href=\"#x\" a=\"abcdefgh\"/>",
                _ => "<specs><g id=\"x\"><g v=\"$a$a\"><reuse href=\"#x\" a=\"$v$v\"/></g></g></specs><reuse href=\"#x\" a=\"ab\"/>",
            };
            ("reuse.amplify", format!("<svg>{body}</svg>"))
        }
        33 => {
            // nested groups around an element that can never be laid out, each level with one sibling that can:
            // a failed child is attempted again by every enclosing level
            // (depths below 19 finish within the first-stage budget; one case in ten is deep enough to show the blow-up)
            let n = if n % 10 == 0 { 28 } else { 2 + n % 17 };
            let (open, close) = if sel % 2 == 0 { ("<g><rect wh=\"1\"/>", "</g>") } else { ("<g>", "<rect wh=\"1\"/></g>") };
            ("retry.nested-groups", format!("<svg>{}<rect xy=\"#nope|h\" wh=\"1\"/>{}</svg>", open.repeat(n), close.repeat(n)))
        }
        _ => {
            let n = n.min(2000);
            let mut s = String::from("<svg><defaults>");
            for i in 0..n {
                s.push_str(&format!("<rect match=\".c{}\" data-i=\"{i}\" class=\"k{i}\"/>", i % 17));
            }
            s.push_str("</defaults><rect wh=\"2\" class=\"c3 c5\"/><rect wh=\"2\" class=\"c7\"/></svg>");
            ("many-defaults", s)
        }
    };
    (name.to_string(), doc)
}

/// every built-in function with every pair of hostile arguments (and each one alone, and none)
fn fn_arg_cases(tier: Tier) -> Vec<Case> {
    let doc = |f: &str, args: &[&str]| format!("<svg><rect wh=\"3\" text=\"{{{{{f}({})}}}}\"/><rect xy=\"{{{{{f}({})}}}} 0\" wh=\"2\"/></svg>", args.join(", "), args.join(", "));
    let mut v = Vec::new();
    for f in FUNS {
        v.push(doc(f, &[]));
        for a in ARGS {
            v.push(doc(f, &[a]));
            for b in ARGS {
                v.push(doc(f, &[a, b]));
                if tier == Tier::Thorough {
                    for c in ARGS {
                        v.push(doc(f, &[a, b, c]));
                    }
                }
            }
        }
    }
    v.into_iter().map(|d| Case { input: Blob::T(d), cfg: Cfg::plain(), fam: "fn-args".into(), shape: "fn.hostile-args".into() }).collect()
}

fn fam_shapes(t: Tier) -> BoxedStrategy<Case> {
    let max_exp = if t == Tier::Quick { 16 } else { 20 };
    (0u8..34, log_uniform(max_exp), any::<u16>(), gen::cfg_small_limits(), prop::bool::weighted(0.7))
        .prop_map(|(kind, n, sel, mut cfg, default_limits)| {
            if default_limits {
                cfg.loop_limit = 1000;
                cfg.var_limit = 1024;
                cfg.depth_limit = 100;
            }
            cfg.debug = false; // debug mode copies the (possibly megabyte) source tag; keep cases cheap
            let (shape, doc) = shape_doc(kind, n, sel);
            Case { input: Blob::T(doc), cfg, fam: "shape".into(), shape }
        })
        .boxed()
}

const FUNS: &[&str] = &[
    "abs", "ceil", "floor", "fract", "sign", "divmod", "sqrt", "log", "exp", "pow", "sin", "cos", "tan", "asin", "acos", "atan", "random", "randint", "min", "max", "sum", "product", "mean",
    "clamp", "mix", "eq", "ne", "lt", "le", "gt", "ge", "if", "not", "and", "or", "xor", "swap", "r2p", "p2r", "select", "addv", "subv", "scalev", "head", "tail", "empty", "count", "in",
    "split", "splitw", "trim", "join", "_",
];
const ARGS: &[&str] = &["0/0", "1/0", "-1/0", "nan", "inf", "-inf", "1e38 * 10", "-0", "2147483648", "-2147483649", "1e-45", "'s'", "''", "16777217", "0.5", "-1"];

// --------------------------------------------------------------------------- family 3: byte-level mutants of the corpus

const EVIL_BYTES: &[&[u8]] = &[
    b"\xff", b"\x00", b"\xed\xa0\x80", b"\xc0\xaf", b"\xfe\xff", b"<", b">", b"&", b"\"", b"'", b"/", b"=", b"<!--", b"-->", b"<![CDATA[", b"]]>", b"<?", b"?>", b"{{", b"}}", b"$", b"#", b"^", b"\\",
    b"<svg>", b"</svg>", b"<g>", b"</g>", b"<loop count=\"3\">", b"</loop>", b"<reuse href=\"#a\"/>", b" id=\"a\"", b"&#0;", b"&#xD800;", b"&amp", b"\xf4\x90\x80\x80", b"\r", b"\n", b"\t",
];

fn mutate(base: &[u8], other: &[u8], ops: &[(u8, u32, u32)]) -> Vec<u8> {
    let mut b = base.to_vec();
    for (op, p, q) in ops {
        if b.is_empty() {
            b.extend_from_slice(other);
        }
        let len = b.len().max(1);
        let pos = (*p as usize) % len;
        match op % 8 {
            0 => {
                let i = pos.min(b.len() - 1);
                b[i] ^= 1 << (q % 8);
            }
            1 => {
                let e = EVIL_BYTES[*q as usize % EVIL_BYTES.len()];
                b.splice(pos..pos, e.iter().copied());
            }
            2 => {
                let end = (pos + 1 + (*q as usize % 40)).min(b.len());
                b.drain(pos..end);
            }
            3 => {
                let end = (pos + 1 + (*q as usize % 200)).min(b.len());
                let chunk: Vec<u8> = b[pos..end].to_vec();
                b.splice(pos..pos, chunk);
            }
            4 => {
                // truncate at a structural boundary near pos
                let cut = b[pos..].iter().position(|c| matches!(c, b'<' | b'>' | b'"' | b'/' | b' ')).map(|i| pos + i + (*q as usize % 2)).unwrap_or(pos);
                b.truncate(cut.min(b.len()));
            }
            5 => {
                // splice with the other file
                let opos = if other.is_empty() { 0 } else { *q as usize % other.len() };
                b.truncate(pos);
                b.extend_from_slice(&other[opos..]);
            }
            6 => {
                // delete a whole tag
                if let Some(s) = b[pos..].iter().position(|c| *c == b'<') {
                    let s = pos + s;
                    if let Some(e) = b[s..].iter().position(|c| *c == b'>') {
                        b.drain(s..=s + e);
                    }
                }
            }
            _ => {
                // duplicate a whole tag
                if let Some(s) = b[pos..].iter().position(|c| *c == b'<') {
                    let s = pos + s;
                    if let Some(e) = b[s..].iter().position(|c| *c == b'>') {
                        let tag: Vec<u8> = b[s..=s + e].to_vec();
                        b.splice(s..s, tag);
                    }
                }
            }
        }
        if b.len() > 200_000 {
            b.truncate(200_000);
        }
    }
    b
}

fn small_cfg() -> impl Strategy<Value = Cfg> {
    gen::cfg_small_limits().prop_map(|mut c| {
        c.loop_limit = c.loop_limit.min(6);
        c
    })
}

fn fam_mutants(_t: Tier) -> BoxedStrategy<Case> {
    let corpus: Arc<Vec<(String, Vec<u8>)>> = Arc::new(gen::corpus_files().into_iter().filter(|(_, b)| b.len() < 20_000).collect());
    let n = corpus.len().max(1);
    (0..n, 0..n, vec((any::<u8>(), any::<u32>(), any::<u32>()), 1..6), small_cfg())
        .prop_map(move |(i, j, ops, cfg)| {
            let (a, b): (&[u8], &[u8]) = if corpus.is_empty() { (b"<svg/>", b"<svg/>") } else { (&corpus[i].1, &corpus[j].1) };
            Case { input: Blob::from_bytes(mutate(a, b, &ops)), cfg, fam: "mutant".into(), shape: String::new() }
        })
        .boxed()
}

// --------------------------------------------------------------------------- family 4: raw bytes and XML-ish token streams

const XMLISH: &[&str] = &[
    "<", ">", "/>", "</", "=", "\"", "'", " ", "\n", "svg", "rect", "g", "loop", "if", "var", "reuse", "use", "specs", "defs", "text", "tspan", "config", "defaults", "for", "point", "box", "line",
    "polyline", "path", "circle", "id", "href", "xy", "wh", "cxy", "text", "count", "while", "until", "test", "data", "var", "start", "end", "surround", "inside", "class", "d", "points", "transform",
    "clip-path", "#a", "^", "|h", "@tl", "~w", "{{", "}}", "$a", "1", "-2", "3.5", "a", "<!--", "-->", "<![CDATA[", "]]>", "<?xml", "?>", "<!DOCTYPE", "&amp;", "&", "xmlns", "http://www.w3.org/2000/svg",
    "<svg>", "</svg>", "<g>", "</g>", "<rect wh=\"2\"/>", " id=\"a\"", "url(#a)", "M0 0", "z", "d-grid-5", "\\n", "%", ",", "(", ")", "+", "*", "abs", "random", "\u{0}", "\u{feff}",
];

fn fam_raw(_t: Tier) -> BoxedStrategy<Case> {
    prop_oneof![
        1 => (vec(any::<u8>(), 0..400), small_cfg()).prop_map(|(b, cfg)| Case { input: Blob::from_bytes(b), cfg, fam: "raw-bytes".into(), shape: String::new() }),
        4 => (vec(0..XMLISH.len(), 0..120), small_cfg()).prop_map(|(t, cfg)| {
            let s: String = t.iter().map(|i| XMLISH[*i]).collect();
            Case { input: Blob::T(s), cfg, fam: "xmlish".into(), shape: String::new() }
        }),
    ]
    .boxed()
}

fn corpus_cases(tier: Tier) -> Vec<Case> {
    let cfgs = [Cfg::default(), Cfg { debug: true, add_metadata: true, theme: "glass".into(), ..Cfg::default() }];
    let mut out = Vec::new();
    for (k, (_n, b)) in gen::corpus_files().into_iter().enumerate() {
        if tier == Tier::Quick && k % 2 == 1 {
            continue;
        }
        for c in &cfgs {
            out.push(Case { input: Blob::from_bytes(b.clone()), cfg: c.clone(), fam: "corpus".into(), shape: String::new() });
        }
    }
    out
}

fn judge_lib(case: &Case) -> Verdict {
    let bytes = case.input.bytes();
    let mut labels = vec![];
    if !case.shape.is_empty() {
        labels.push(format!("shape:{}", case.shape));
    }
    if raises_limits(&bytes) {
        return Verdict::skip("input-raises-limits", labels, 0);
    }
    let mut evals = 1;
    let r1 = transform_bytes(&bytes, &case.cfg);
    let mut past_xml = match &r1 {
        ByteOutcome::Ok(_) => {
            labels.push("result:ok".into());
            true
        }
        ByteOutcome::Err(k, m) => {
            labels.push(format!("result:err:{k}"));
            !m.contains("XML error")
        }
        ByteOutcome::Panic(loc, msg) => {
            return Verdict::fail(format!("panic:{loc}"), format!("transform_stream panicked at {loc}: {msg}"), labels, evals);
        }
    };
    if let Blob::T(s) = &case.input {
        evals += 1;
        match transform(s, &case.cfg) {
            Outcome::Panic(loc, msg) => {
                return Verdict::fail(format!("panic:{loc}"), format!("transform_str panicked at {loc}: {msg}"), labels, evals);
            }
            Outcome::Ok(o) => {
                // the two library entry points must agree on success
                if let ByteOutcome::Ok(b) = &r1 {
                    if b.as_slice() != o.as_bytes() && !case.cfg.use_local_styles {
                        return Verdict::fail("frontends-disagree:str-vs-stream", "transform_str and transform_stream returned different bytes", labels, evals);
                    }
                } else {
                    return Verdict::fail("frontends-disagree:str-ok-stream-err", "transform_str Ok but transform_stream failed", labels, evals);
                }
            }
            Outcome::Err(..) => {
                if matches!(r1, ByteOutcome::Ok(_)) {
                    return Verdict::fail("frontends-disagree:str-err-stream-ok", "transform_stream Ok but transform_str failed", labels, evals);
                }
            }
        }
    } else {
        labels.push("non-utf8".into());
    }
    if case.fam == "shape" {
        past_xml = true;
    }
    Verdict::pass(past_xml, labels, evals)
}

impl Property for C01 {
    type Case = Case;
    fn id(&self) -> &'static str {
        "C01"
    }
    fn rule(&self) -> String {
        "cases = (input bytes, config with limits <= defaults), executed in a sandboxed worker process on a fresh 2 MiB-stack thread through transform_stream and (if UTF-8) transform_str; \
         families: DocGen documents with junk-token damage, 33 shape-parameter generators (size n log-uniform up to 2^17 quick / 2^21 thorough) for every recursive or scanning mechanism, byte-level mutants and splices of the repository corpus, \
         raw bytes and XML-ish token streams, corpus replays; plus a process-level phase running a deterministic subset through the real svgdx binary (file and stdin) and a live svgdx-server. \
         Oracle: the call returns Ok or Err - no panic (signature = panic file:line), no worker death (signal), no case exceeding the two-stage CPU budget (20 s, then 200 s alone); CLI exit status 0/1 not a signal; server 200/400 and alive afterwards. \
         Non-trivial = the input got past XML reading (Ok, or an error other than 'XML error'), or is a shape-parameter case; distinct by hash of (input, config)."
            .into()
    }
    fn assumptions(&self) -> Vec<String> {
        vec![
            "worker thread stack = 2 MiB (the std/tokio default an embedder or the server gets); harness links svgdx built with opt-level s + overflow checks".into(),
            "termination is judged by CPU time (two-stage budget), never wall time; polynomial slowness is not a violation".into(),
            "documents that raise a limit above its default via <config> are outside the quantifier (skipped, counted)".into(),
        ]
    }
    fn crash_is_violation(&self) -> bool {
        true
    }
    fn families(&self, tier: Tier) -> Vec<Family<Case>> {
        vec![
            Family::random("docgen-damaged", tier.n(2500, 60_000), fam_docgen),
            Family::random("attr-values", tier.n(6000, 150_000), fam_attrs),
            Family::random("shape", tier.n(1500, 20_000), fam_shapes),
            Family::enumerated("fn-args", fn_arg_cases(tier)),
            Family::random("mutant", tier.n(3000, 80_000), fam_mutants),
            Family::random("raw", tier.n(2000, 60_000), fam_raw),
            Family::fixed("corpus", corpus_cases(tier)),
        ]
    }
    fn fuzz(&self) -> Option<crate::engine::FuzzSpec<Case>> {
        fn decode(data: &[u8]) -> Option<Case> {
            let (k, doc) = crate::fuzzrider::split(data)?;
            Some(Case { input: Blob::from_bytes(doc.to_vec()), cfg: crate::fuzzrider::cfg_table()[k].clone(), fam: "fuzz".into(), shape: String::new() })
        }
        Some(crate::engine::FuzzSpec { target: "c01_total", secs: 420, decode })
    }
    fn judge(&self, case: &Case, _strict: bool) -> Verdict {
        judge_lib(case)
    }
    fn hang_sig(&self, case: &serde_json::Value) -> String {
        match case.get("shape").and_then(|s| s.as_str()) {
            Some(s) if !s.is_empty() => format!("hang:{s}"),
            _ => "hang".into(),
        }
    }
    fn parent_phase(&self, tier: Tier, seed: u64) -> ParentPhase {
        crate::props::frontends::c01_process_phase(tier, seed)
    }
}
