//! C16 Loops and conditionals render exactly what their unrolling renders (translation validation).

use crate::engine::{Family, Property, Tier, Verdict};
use crate::gen::{XEl, X};
use crate::run::{num, transform, Cfg, Outcome};
use crate::sxml::{self, Element, Node};
use proptest::collection::vec;
use proptest::prelude::*;
use serde::{Deserialize, Serialize};

pub struct C16;

#[derive(Clone, Debug, Serialize, Deserialize)]
pub enum LoopForm {
    /// count=N, optional loop-var with start / step
    Count(u8, Option<(f32, f32)>),
    /// count given through a variable which the body then modifies (the count is evaluated once)
    CountVar(u8),
    While(u8),
    Until(u8),
    /// until="ge($loopvar, T)" over the loop-var itself (start 0, given step): the condition is tested after each pass
    /// with the value that pass saw
    UntilVar(u8, f32),
    /// while="$k" over a signed counter running from -N up to 0: any non-zero value is true
    WhileSigned(u8),
}

#[derive(Clone, Debug, Serialize, Deserialize)]
pub enum N {
    /// shape: kind 0 rect absolute using the loop vars, 1 circle relative to ^, 2 rect with dynamic id + referrer, 3 text with vars, 4 line
    Shape(u8, f64, f64),
    /// <var acc="{{$acc + d}}"/>
    Acc(i32),
    Loop(usize, LoopForm, Vec<N>),
    For(usize, Vec<String>, bool, Vec<N>),
    /// <for> over a list that mixes numbers and quoted strings; the body only shows the item
    ForMixed(usize, Vec<String>),
    /// a loop whose body is a <use> of the element the previous pass made: a chain as long as the count
    UseChain(usize, u8),
    /// if with a test of known truth; form 0 literal, 1 comparison function on a constant, 2 expression in braces
    If(bool, u8, Vec<N>),
    Group(Vec<N>),
}

#[derive(Clone, Debug, Serialize, Deserialize)]
pub struct Case {
    pub prog: Vec<N>,
}

fn f32txt(v: f32) -> String {
    format!("{v}")
}

fn node(depth: u32) -> BoxedStrategy<N> {
    let leaf = prop_oneof![6 => (0u8..6, crate::gen::nice(20), crate::gen::nice_pos(8)).prop_map(|(k, a, b)| N::Shape(k, a, b)), 2 => (-3..4i32).prop_map(N::Acc)];
    leaf.prop_recursive(depth, 30, 4, |inner| {
        let form = prop_oneof![
            3 => (0u8..6, prop::option::of((prop_oneof![Just(0.0f32), Just(1.0), Just(-2.0), Just(0.5), Just(2.25), Just(0.0625)], prop_oneof![Just(1.0f32), Just(-1.0), Just(0.5), Just(-1.5), Just(3.0), Just(0.0), Just(0.0625), Just(0.03125)]))).prop_map(|(n, lv)| LoopForm::Count(n, lv)),
            1 => (0u8..5).prop_map(LoopForm::CountVar),
            2 => (0u8..5).prop_map(LoopForm::While),
            2 => (0u8..5).prop_map(LoopForm::Until),
            1 => (0u8..5, prop_oneof![Just(1.0f32), Just(0.5), Just(2.0)]).prop_map(|(n, st)| LoopForm::UntilVar(n, st)),
            1 => (0u8..5).prop_map(LoopForm::WhileSigned),
        ];
        prop_oneof![
            4 => (form, vec(inner.clone(), 1..4)).prop_map(|(f, b)| N::Loop(0, f, b)),
            2 => (vec(prop_oneof![Just("1"), Just("2"), Just("5"), Just("-3"), Just("0.5"), Just("10")], 1..5), any::<bool>(), vec(inner.clone(), 1..4)).prop_map(|(items, idx, b)| N::For(0, items.into_iter().map(|s| s.to_string()).collect(), idx, b)),
            2 => (any::<bool>(), 0u8..7, vec(inner.clone(), 1..4)).prop_map(|(t, f, b)| N::If(t, f, b)),
            1 => (2u8..6).prop_map(|n| N::UseChain(0, n)),
            1 => vec(prop_oneof![Just("1"), Just("'two'"), Just("3.5"), Just("'x'"), Just("-4"), Just("'de luxe'"), Just("''"), Just("' padded '"), Just("'total: '")], 1..5).prop_map(|items| N::ForMixed(0, items.into_iter().map(|s| s.to_string()).collect())),
            1 => vec(inner.clone(), 1..4).prop_map(N::Group),
        ]
    })
    .boxed()
}

fn number(prog: &mut [N], next: &mut usize) {
    for n in prog.iter_mut() {
        match n {
            N::Loop(id, _, b) | N::For(id, _, _, b) => {
                *id = *next;
                *next += 1;
                number(b, next);
            }
            N::ForMixed(id, _) | N::UseChain(id, _) => {
                *id = *next;
                *next += 1;
            }
            N::If(_, _, b) | N::Group(b) => number(b, next),
            _ => {}
        }
    }
}

fn fam_programs(_t: Tier) -> BoxedStrategy<Case> {
    vec(node(3), 1..5)
        .prop_map(|mut prog| {
            let mut next = 0;
            number(&mut prog, &mut next);
            Case { prog }
        })
        .boxed()
}

/// names of loop variables visible at this point (innermost last); used by shapes so that bodies depend on them
fn render(prog: &[N], unroll: bool, vars: &mut Vec<String>, out: &mut Vec<X>) {
    for n in prog {
        match n {
            N::Shape(kind, a, b) => {
                let v = vars.last().cloned();
                let vexpr = |scale: f64| match &v {
                    Some(name) => format!("{{{{${name} * {} + $acc}}}}", num(scale)),
                    None => "{{$acc}}".to_string(),
                };
                match kind {
                    0 => out.push(X::El(XEl::new("rect").a("xy", format!("{} {}", vexpr(6.0), num(*a))).a("wh", format!("{} 2", num(*b))))),
                    // ^-relative shapes follow an anchor shape, so that the previous element always has a bounding box
                    // (a ^ that meets a box-less element, and what a retry then resolves it to, is C10's subject)
                    1 => {
                        out.push(X::El(XEl::new("rect").a("xy", format!("{} {}", num(*a), vexpr(2.0))).a("wh", "2 1")));
                        out.push(X::El(XEl::new("circle").a("cxy", format!("^@br {} 1", num(*b / 2.0))).a("r", num(*b / 4.0 + 0.5))));
                        out.push(X::El(XEl::new("rect").a("xy", "^|h 1").a("wh", "1")));
                    }
                    2 => {
                        // ids must stay within [A-Za-z0-9_-]: derive an integer from the (possibly fractional) loop value
                        let idx = v.as_ref().map(|n| format!("{{{{floor(${{{n}}} * 4)}}}}")).unwrap_or("0".into());
                        out.push(X::El(XEl::new("rect").a("id", format!("d{idx}x")).a("xy", format!("{} {}", num(*a), vexpr(3.0))).a("wh", "3 2")));
                        out.push(X::El(XEl::new("rect").a("xy", format!("#d{idx}x|v 1")).a("wh", "1")));
                    }
                    5 => {
                        // an id taken from the accumulator as it stands when the element's turn comes
                        out.push(X::El(XEl::new("rect").a("id", "k{{abs($acc)}}q").a("xy", format!("{} {}", num(*a), vexpr(3.0))).a("wh", "2 3")));
                        out.push(X::El(XEl::new("circle").a("cxy", "#k{{abs($acc)}}q@b 0 1").a("r", "1")));
                    }
                    3 => out.push(X::El(XEl::new("text").a("xy", format!("{} {}", num(*a), num(*b))).a("text", format!("v={} acc=$acc", v.as_ref().map(|n| format!("${n}")).unwrap_or("-".into()))))),
                    _ => {
                        out.push(X::El(XEl::new("circle").a("cxy", format!("{} {}", vexpr(4.0), num(*a))).a("r", "1")));
                        out.push(X::El(XEl::new("line").a("xy1", "^@c").a("xy2", format!("{} {}", vexpr(2.0), num(*a + *b)))));
                    }
                }
            }
            N::Acc(d) => out.push(X::El(XEl::new("var").a("acc", format!("{{{{$acc + {d}}}}}")))),
            N::Group(b) => {
                let mut g = XEl::new("g");
                render(b, unroll, vars, &mut g.kids);
                out.push(X::El(g));
            }
            N::If(truth, form, b) => {
                let test = match (truth, form % 7) {
                    // non-zero, however small (smaller than the three decimals a value is printed with)
                    (true, 5) => "0.0004".to_string(),
                    (true, 6) => "{{-1 / 4000}}".to_string(),
                    (false, 5) => "{{0.0004 - 0.0004}}".to_string(),
                    (false, 6) => "-0".to_string(),
                    (true, 0) => "1".to_string(),
                    (false, 0) => "0".to_string(),
                    (true, 1) => "gt(3, 2)".to_string(),
                    (false, 1) => "lt(3, 2)".to_string(),
                    (true, 2) => "{{2 - 1.5}}".to_string(),
                    (false, 2) => "{{2 * 0}}".to_string(),
                    // any non-zero value is true, negative ones included
                    (true, 3) => "{{1 - 3.5}}".to_string(),
                    (true, _) => "-1".to_string(),
                    (false, _) => "{{-2 + 2}}".to_string(),
                };
                if unroll {
                    if *truth {
                        render(b, unroll, vars, out);
                    }
                } else {
                    let mut e = XEl::new("if").a("test", test);
                    render(b, unroll, vars, &mut e.kids);
                    out.push(X::El(e));
                }
            }
            N::UseChain(id, n) => {
                let var = format!("uc{id}");
                out.push(X::El(XEl::new("rect").a("id", format!("ch{id}x0")).a("xy", "70 70").a("wh", "2")));
                let link = |i: String, prev: String| XEl::new("use").a("id", format!("ch{id}x{i}")).a("href", format!("#ch{id}x{prev}")).a("x", "3").a("y", "1");
                if unroll {
                    for k in 1..=*n {
                        out.push(X::El(XEl::new("var").a(&var, format!("{k}"))));
                        out.push(X::El(link(format!("${{{var}}}"), format!("{{{{${var} - 1}}}}"))));
                    }
                } else {
                    out.push(X::El(XEl::new("loop").a("count", format!("{n}")).a("loop-var", var.clone()).a("start", "1").kid(link(format!("${{{var}}}"), format!("{{{{${var} - 1}}}}")))));
                }
            }
            N::ForMixed(id, items) => {
                let (var, ivar) = (format!("s{id}"), format!("sx{id}"));
                let body = XEl::new("text").a("xy", format!("30 {{{{${ivar} * 3}}}}")).a("text", format!("item ${var}."));
                if unroll {
                    for (k, it) in items.iter().enumerate() {
                        // the value of a quoted item is the string between the quotes
                        out.push(X::El(XEl::new("var").a(&var, it.trim_matches('\'').to_string()).a(&ivar, format!("{k}"))));
                        out.push(X::El(body.clone()));
                    }
                } else {
                    out.push(X::El(XEl::new("for").a("data", items.join(", ")).a("var", var.clone()).a("idx-var", ivar.clone()).kid(body)));
                }
            }
            N::For(id, items, idx, b) => {
                let var = format!("it{id}");
                let ivar = format!("ix{id}");
                vars.push(var.clone());
                if unroll {
                    for (k, it) in items.iter().enumerate() {
                        let mut v = XEl::new("var").a(&var, it.clone());
                        if *idx {
                            v.set(&ivar, format!("{k}"));
                        }
                        out.push(X::El(v));
                        render(b, unroll, vars, out);
                    }
                } else {
                    let mut e = XEl::new("for").a("data", items.join(", ")).a("var", var.clone());
                    if *idx {
                        e.set("idx-var", ivar.clone());
                    }
                    render(b, unroll, vars, &mut e.kids);
                    out.push(X::El(e));
                }
                vars.pop();
            }
            N::Loop(id, form, b) => {
                let k = format!("k{id}");
                match form {
                    LoopForm::Count(cnt, lv) => {
                        let name = format!("i{id}");
                        if lv.is_some() {
                            vars.push(name.clone());
                        }
                        if unroll {
                            let (mut val, step) = lv.unwrap_or((0.0, 1.0));
                            for _ in 0..*cnt {
                                if lv.is_some() {
                                    out.push(X::El(XEl::new("var").a(&name, f32txt(val))));
                                }
                                render(b, unroll, vars, out);
                                val += step;
                            }
                        } else {
                            let mut e = XEl::new("loop").a("count", format!("{cnt}"));
                            if let Some((start, step)) = lv {
                                e.set("loop-var", name.clone());
                                if *start != 0.0 || id % 2 == 0 {
                                    e.set("start", f32txt(*start));
                                }
                                if *step != 1.0 || id % 3 == 0 {
                                    e.set("step", f32txt(*step));
                                }
                            }
                            render(b, unroll, vars, &mut e.kids);
                            out.push(X::El(e));
                        }
                        if lv.is_some() {
                            vars.pop();
                            // the loop variable keeps the value of the last pass ("as though a <var> element was present")
                            out.push(X::El(XEl::new("text").a("xy", "0 -9").a("text", format!("after {name}=${name}"))));
                        }
                    }
                    LoopForm::UntilVar(cnt, step) => {
                        let name = format!("i{id}");
                        vars.push(name.clone());
                        // passes see 0, step, 2*step, ...; the loop ends after the first pass whose value is >= cnt*step
                        let passes = *cnt as usize + 1;
                        if unroll {
                            for p in 0..passes {
                                out.push(X::El(XEl::new("var").a(&name, f32txt(p as f32 * step))));
                                render(b, unroll, vars, out);
                            }
                        } else {
                            let mut e = XEl::new("loop").a("until", format!("ge(${name}, {})", f32txt(*cnt as f32 * step))).a("loop-var", name.clone());
                            if *step != 1.0 {
                                e.set("step", f32txt(*step));
                            }
                            render(b, unroll, vars, &mut e.kids);
                            out.push(X::El(e));
                        }
                        vars.pop();
                        out.push(X::El(XEl::new("text").a("xy", "0 -9").a("text", format!("after {name}=${name}"))));
                    }
                    LoopForm::WhileSigned(cnt) => {
                        out.push(X::El(XEl::new("var").a(&k, format!("-{cnt}"))));
                        vars.push(k.clone());
                        let inc = XEl::new("var").a(&k, format!("{{{{${k} + 1}}}}"));
                        if unroll {
                            for _ in 0..*cnt {
                                render(b, unroll, vars, out);
                                out.push(X::El(inc.clone()));
                            }
                        } else {
                            let mut e = XEl::new("loop").a("while", format!("${k}"));
                            render(b, unroll, vars, &mut e.kids);
                            e.kids.push(X::El(inc));
                            out.push(X::El(e));
                        }
                        vars.pop();
                    }
                    LoopForm::CountVar(cnt) => {
                        // the body decrements the variable the count came from: the count is evaluated once, before the loop
                        out.push(X::El(XEl::new("var").a(&k, format!("{cnt}"))));
                        let dec = XEl::new("var").a(&k, format!("{{{{${k} - 1}}}}"));
                        if unroll {
                            for _ in 0..*cnt {
                                render(b, unroll, vars, out);
                                out.push(X::El(dec.clone()));
                            }
                        } else {
                            let mut e = XEl::new("loop").a("count", format!("${k}"));
                            render(b, unroll, vars, &mut e.kids);
                            e.kids.push(X::El(dec));
                            out.push(X::El(e));
                        }
                    }
                    LoopForm::While(cnt) | LoopForm::Until(cnt) => {
                        let is_while = matches!(form, LoopForm::While(_));
                        out.push(X::El(XEl::new("var").a(&k, "0")));
                        vars.push(k.clone());
                        let inc = XEl::new("var").a(&k, format!("{{{{${k} + 1}}}}"));
                        let passes = if is_while { *cnt } else { (*cnt).max(1) };
                        if unroll {
                            for _ in 0..passes {
                                render(b, unroll, vars, out);
                                out.push(X::El(inc.clone()));
                            }
                        } else {
                            let mut e = XEl::new("loop");
                            if is_while {
                                e.set("while", format!("{{{{lt(${k}, {cnt})}}}}"));
                            } else {
                                e.set("until", format!("ge(${k}, {cnt})"));
                            }
                            render(b, unroll, vars, &mut e.kids);
                            e.kids.push(X::El(inc));
                            out.push(X::El(e));
                        }
                        vars.pop();
                    }
                }
            }
        }
    }
}

pub fn docs(c: &Case) -> (String, String) {
    let mk = |unroll: bool| {
        let mut kids: Vec<X> = vec![X::El(XEl::new("var").a("acc", "0")), X::El(XEl::new("rect").a("id", "origin").a("xy", "0 0").a("wh", "2"))];
        render(&c.prog, unroll, &mut vec![], &mut kids);
        // a trailing probe shows the final variable state (loop variables persist after a loop)
        kids.push(X::El(XEl::new("text").a("xy", "0 -5").a("text", "final acc=$acc")));
        XEl { name: "svg".into(), attrs: vec![], kids }.to_xml()
    };
    (mk(false), mk(true))
}

/// structural form of an output tree with whitespace-only text dropped
fn canon(e: &Element, out: &mut Vec<String>) {
    let mut attrs = e.attrs.clone();
    attrs.sort();
    out.push(format!("<{} {:?}>", e.name, attrs));
    for c in &e.children {
        match c {
            Node::El(k) => canon(k, out),
            Node::Text(t) | Node::CData(t) => {
                if !t.trim().is_empty() {
                    out.push(format!("\"{}\"", t.trim()))
                }
            }
            Node::Comment(t) => out.push(format!("<!--{t}-->")),
            _ => {}
        }
    }
    out.push(format!("</{}>", e.name));
}

pub fn canon_doc(s: &str) -> Result<Vec<String>, String> {
    let t = sxml::parse_tree(s).map_err(|e| e.to_string())?;
    let mut v = Vec::new();
    canon(&t, &mut v);
    Ok(v)
}

fn stats(prog: &[N]) -> (usize, bool) {
    // (max iterations of any loop, any loop-dependent body)
    let mut it = 0;
    let mut dep = false;
    for n in prog {
        match n {
            N::Loop(_, f, b) => {
                let c = match f {
                    LoopForm::Count(c, lv) => {
                        if lv.is_some() {
                            dep = true;
                        }
                        *c
                    }
                    LoopForm::CountVar(c) | LoopForm::While(c) | LoopForm::WhileSigned(c) => *c,
                    LoopForm::Until(c) => (*c).max(1),
                    LoopForm::UntilVar(c, _) => *c + 1,
                } as usize;
                it = it.max(c);
                let (i2, d2) = stats(b);
                it = it.max(i2);
                dep |= d2 || matches!(f, LoopForm::While(_) | LoopForm::Until(_) | LoopForm::UntilVar(..) | LoopForm::WhileSigned(_));
            }
            N::ForMixed(_, items) => {
                it = it.max(items.len());
                dep = true;
            }
            N::UseChain(_, n) => {
                it = it.max(*n as usize);
                dep = true;
            }
            N::For(_, items, _, b) => {
                it = it.max(items.len());
                dep = true;
                let (i2, d2) = stats(b);
                it = it.max(i2);
                dep |= d2;
            }
            N::If(_, _, b) | N::Group(b) => {
                let (i2, d2) = stats(b);
                it = it.max(i2);
                dep |= d2;
            }
            N::Shape(1, ..) | N::Shape(4, ..) | N::Shape(5, ..) => dep = true,
            _ => {}
        }
    }
    (it, dep)
}

impl Property for C16 {
    type Case = Case;
    fn id(&self) -> &'static str {
        "C16"
    }
    fn level(&self) -> &'static str {
        "translation_validation"
    }
    fn rule(&self) -> String {
        "cases = programs (1-4 top-level constructs, nesting <= 3) whose bodies hold shapes positioned from the loop variables and an accumulator, shapes relative to ^, shapes with dynamic ids plus a referrer, text showing the variables, accumulator updates, nested loops / fors / ifs / groups; loop forms: count 0..5 with optional loop-var and dyadic fractional / negative / zero start and step, count taken from a variable that the body then modifies, while and until over explicit counters (0..4 requested passes), <for> over literal lists of 1..4 items with optional idx-var, <if> with tests of known truth in three spellings. \
         The generator emits each program together with its mechanically unrolled twin (loop -> N x (<var loop-var=value/> body), while/until -> the passes the statement prescribes, for -> one <var> per item, if -> body or nothing). \
         Oracle: both documents transform Ok and their outputs are equal as parsed trees (whitespace-only text ignored, root attributes - hence the extent - included), or both fail. \
         Non-trivial = some loop makes >= 2 passes and a body reads a loop-dependent variable or uses ^; distinct by hash of the case."
            .into()
    }
    fn assumptions(&self) -> Vec<String> {
        vec!["bodies contain no forward references (retries are C10/C15's subject); loop variable values are dyadic so f32 accumulation is exact".into()]
    }
    fn families(&self, tier: Tier) -> Vec<Family<Case>> {
        vec![Family::random("program-vs-unrolling", tier.n(24_000, 150_000), fam_programs)]
    }
    fn judge(&self, case: &Case, _strict: bool) -> Verdict {
        let (looped, unrolled) = docs(case);
        let cfg = Cfg::plain();
        let (a, b) = (transform(&looped, &cfg), transform(&unrolled, &cfg));
        let (iters, dep) = stats(&case.prog);
        let labels = vec![format!("max-passes:{iters}")];
        match (a, b) {
            (Outcome::Ok(x), Outcome::Ok(y)) => {
                let (cx, cy) = match (canon_doc(&x), canon_doc(&y)) {
                    (Ok(a), Ok(b)) => (a, b),
                    (Err(e), _) | (_, Err(e)) => return Verdict::fail("c16:output-illformed", e, labels, 2),
                };
                if cx == cy {
                    Verdict::pass(iters >= 2 && dep, labels, 2)
                } else {
                    let i = cx.iter().zip(cy.iter()).position(|(p, q)| p != q).unwrap_or(cx.len().min(cy.len()));
                    let kind = if looped.contains("until=") { "until" } else if looped.contains("while=") { "while" } else if looped.contains("<for") { "for" } else if looped.contains("<loop") { "count" } else { "if" };
                    Verdict::fail(
                        format!("c16:differs-from-unrolling:{}", if cx.len() != cy.len() { format!("{kind}:element-count") } else { format!("{kind}:attributes") }),
                        format!("first difference at node {i}: program gives {:?}, unrolling gives {:?}\n--- program ---\n{looped}\n--- unrolled ---\n{unrolled}\n--- program output ---\n{x}\n--- unrolled output ---\n{y}", cx.get(i), cy.get(i)),
                        labels,
                        2,
                    )
                }
            }
            (Outcome::Err(k, m), Outcome::Err(..)) => Verdict::skip(format!("both-fail:{k}:{}", crate::run::trunc(&m.replace('\n', " "), 160)), labels, 2),
            (Outcome::Panic(l, m), _) | (_, Outcome::Panic(l, m)) => Verdict::fail(format!("c16:panic:{l}"), m, labels, 2),
            (Outcome::Err(k, m), Outcome::Ok(_)) => Verdict::fail(format!("c16:program-fails-but-unrolling-works:{k}"), format!("{}\n--- program ---\n{looped}\n--- unrolled ---\n{unrolled}", crate::run::trunc(&m, 1200)), labels, 2),
            (Outcome::Ok(_), Outcome::Err(k, m)) => Verdict::fail(format!("c16:unrolling-fails-but-program-works:{k}"), format!("{}\n--- program ---\n{looped}\n--- unrolled ---\n{unrolled}", crate::run::trunc(&m, 1200)), labels, 2),
        }
    }
}
