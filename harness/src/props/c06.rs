//! C06 Determinism: same input and configuration give the same bytes, every time.

use crate::engine::{hash_bytes, runner_for, Family, ParentPhase, Property, Tier, Verdict};
use crate::gen::{self, DocOpts, XEl};
use crate::props::frontends::{run_cli, run_dir, CLI_BIN};
use crate::run::{num, transform, Cfg, Outcome};
use proptest::collection::vec;
use proptest::prelude::*;
use proptest::strategy::ValueTree;
use serde::{Deserialize, Serialize};
use serde_json::json;

pub struct C06;

#[derive(Clone, Debug, Serialize, Deserialize)]
pub struct Case {
    pub input: String,
    pub cfg: Cfg,
    pub fam: String,
}

const PATTERNS: &[&str] = &["d-grid", "d-grid-h", "d-grid-v", "d-hatch", "d-crosshatch", "d-stipple"];
const OTHER: &[&str] = &[
    "d-red", "d-fill-blue", "d-text-green", "d-fill-none", "d-arrow", "d-biarrow", "d-softshadow", "d-hardshadow", "d-dot", "d-dash", "d-flow", "d-flow-fast", "d-flow-rev", "d-thin", "d-thicker",
    "d-text-bold", "d-text-small", "d-text-ol-white", "d-text-pre", "d-text-monospace", "d-fill-darkred", "d-text-ol", "d-fill-gold", "d-text-larger", "d-text-outside",
];
const ELS: &[&str] = &["rect", "circle", "ellipse", "line", "polyline", "polygon", "path", "text"];

fn pattern_doc(picks: &[(u8, Vec<(u8, u8)>, u8)]) -> String {
    let mut kids = Vec::new();
    for (i, (el, classes, other)) in picks.iter().enumerate() {
        let name = ELS[*el as usize % ELS.len()];
        let mut e = match name {
            "rect" => XEl::new("rect").a("xy", format!("{} 0", i * 12)).a("wh", "10"),
            "circle" => XEl::new("circle").a("cxy", format!("{} 20", i * 12)).a("r", "5"),
            "ellipse" => XEl::new("ellipse").a("cxy", format!("{} 40", i * 12)).a("rxy", "5 3"),
            "line" => XEl::new("line").a("xy1", format!("{} 50", i * 12)).a("xy2", format!("{} 60", i * 12 + 8)),
            "polyline" => XEl::new("polyline").a("points", format!("{} 70 {} 75 {} 70", i * 12, i * 12 + 4, i * 12 + 8)),
            "polygon" => XEl::new("polygon").a("points", format!("{} 80 {} 85 {} 80", i * 12, i * 12 + 4, i * 12 + 8)),
            "path" => XEl::new("path").a("d", format!("M{} 90 l5 5 l5 -5", i * 12)),
            _ => XEl::new("text").a("xy", format!("{} 100", i * 12)).a("text", "label"),
        };
        for (p, n) in classes {
            let base = PATTERNS[*p as usize % PATTERNS.len()];
            let pad = *n / 104; // 0: plain, 1: zero-padded, 2: plain and zero-padded spellings of the same spacing
            let n = *n % 104; // includes the invalid suffixes 0, 101..103 and the bare class
            if n == 103 {
                e.add_class(base);
            } else {
                match pad {
                    0 => e.add_class(&format!("{base}-{n}")),
                    1 => e.add_class(&format!("{base}-0{n}")),
                    _ => {
                        e.add_class(&format!("{base}-00{n}"));
                        e.add_class(&format!("{base}-{n}"));
                        e.add_class(&format!("{base}-0{n}"));
                    }
                }
            }
        }
        if other % 3 != 0 {
            e.add_class(OTHER[*other as usize % OTHER.len()]);
            e.add_class(OTHER[(*other as usize * 7 + 3) % OTHER.len()]);
        }
        if other % 4 == 0 {
            e.set("text", "t");
        }
        kids.push(e);
    }
    // local styles switched on and off again inside the document: the effective configuration has them off
    if picks.first().map(|p| p.2 % 5 == 0).unwrap_or(false) {
        kids.insert(0, XEl::new("config").a("use-local-styles", "false"));
        kids.insert(0, XEl::new("config").a("use-local-styles", "true").a("theme", "dark"));
    }
    gen::svg_root(kids).to_xml()
}

fn fam_patterns(_t: Tier) -> BoxedStrategy<Case> {
    (vec((any::<u8>(), vec((any::<u8>(), any::<u8>()), 0..5), any::<u8>()), 1..8), gen::cfg_benign())
        .prop_map(|(p, mut cfg)| {
            cfg.add_auto_styles = true;
            Case { input: pattern_doc(&p), cfg, fam: "patterns".into() }
        })
        .boxed()
}

fn fam_random(_t: Tier) -> BoxedStrategy<Case> {
    let opts = DocOpts { random_fns: true, ..DocOpts::all() };
    // (one document in three sets the seed itself, through a <config> element - with values of every kind, valid or not)
    const SEEDS: &[&str] = &["7", "layout-b", "-1", "1.5", "0x10", "", "18446744073709551616", "{{3 + 4}}", " 12 ", "seven"];
    (gen::docgen(opts, 12, gen::benign_text().boxed()), gen::cfg_benign(), 0usize..30)
        .prop_map(|(mut input, cfg, k)| {
            if k < SEEDS.len() {
                input = input.replacen("<svg>", &format!("<svg>\n  <config seed=\"{}\"/>\n  <text xy=\"0 -9\" text=\"{{{{randint(1, 100000)}}}}\"/>", SEEDS[k]), 1);
            }
            Case { input, cfg, fam: "random-fns".into() }
        })
        .boxed()
}

fn fam_errors(_t: Tier) -> BoxedStrategy<Case> {
    (vec((0u8..6, gen::nice(30)), 2..7), gen::cfg_benign())
        .prop_map(|(els, cfg)| {
            let mut kids = Vec::new();
            for (i, (k, v)) in els.iter().enumerate() {
                kids.push(match k {
                    0 => XEl::new("rect").a("xy", format!("#missing{i}|h")).a("wh", "3"),
                    1 => XEl::new("rect").a("wh", format!("{{{{{} +}}}}", num(*v))),
                    2 => XEl::new("circle").a("cxy", "#nowhere@c").a("r", "2"),
                    3 => XEl::new("line").a("start", "#q1").a("end", "#q2"),
                    4 => XEl::new("rect").a("xy", format!("{} 0", num(*v))).a("wh", "4").a("class", "d-grid-3 d-grid-7 d-hatch-2"),
                    _ => XEl::new("reuse").a("href", format!("#undefined{i}")),
                });
            }
            // half of the documents put all failing elements on one source line
            let root = gen::svg_root(kids);
            let input = if els.len() % 2 == 0 { root.to_xml() } else { root.to_xml_compact() };
            Case { input, cfg, fam: "multi-error".into() }
        })
        .boxed()
}

fn fam_union(t: Tier) -> BoxedStrategy<Case> {
    (crate::props::union::svgdx_docs(t), gen::cfg_benign()).prop_map(|(input, cfg)| Case { input, cfg, fam: "union".into() }).boxed()
}

fn corpus_cases() -> Vec<Case> {
    gen::corpus_strings().into_iter().map(|(_n, s)| Case { input: s, cfg: Cfg { theme: "bold".into(), ..Cfg::default() }, fam: "corpus".into() }).collect()
}

fn show(o: &Outcome) -> String {
    match o {
        Outcome::Ok(s) => format!("Ok:{s}"),
        Outcome::Err(k, m) => format!("Err[{k}]:{m}"),
        Outcome::Panic(l, m) => format!("Panic[{l}]:{m}"),
    }
}

const REPS: usize = 6;

fn count_pattern_classes(input: &str) -> usize {
    PATTERNS.iter().map(|p| input.matches(&format!("{p}-")).count()).sum()
}

impl Property for C06 {
    type Case = Case;
    fn id(&self) -> &'static str {
        "C06"
    }
    fn rule(&self) -> String {
        format!(
            "cases = (input, config with use_local_styles = false); each case is transformed {REPS} times in one process (every transform builds fresh hash collections whose RandomState keys differ) and the results - output bytes or Display of the error - must be identical; \
             a process-level phase runs a generated subset through several fresh `svgdx` processes and compares stdout bytes and exit status; random-function documents are also run under a second seed, which must change the output (guards against a blind check). \
             Families: numeric-suffix pattern classes (>= 2 per family, valid and invalid suffixes) over all element kinds x themes, DocGen with random()/randint() under random seeds, documents with several failing elements (multi-error ordering), the union of svgdx generators, the repository corpus. \
             Non-trivial = >= 2 suffix-pattern classes, or >= 2 failing elements, or a random function; distinct by hash of the case."
        )
    }
    fn assumptions(&self) -> Vec<String> {
        vec![
            "hidden nondeterminism is observable through differing hash seeds (in-process RandomState instances, fresh processes) - a source that is stable across these would be missed".into(),
            "the CLI's stderr text is not compared (it prints a Debug form); the library/server Display form is".into(),
        ]
    }
    fn families(&self, tier: Tier) -> Vec<Family<Case>> {
        vec![
            Family::random("patterns", tier.n(2500, 40_000), fam_patterns),
            Family::random("random-fns", tier.n(1500, 25_000), fam_random),
            Family::random("multi-error", tier.n(800, 10_000), fam_errors),
            Family::random("union", tier.n(1500, 25_000), fam_union),
            Family::fixed("corpus", corpus_cases()),
        ]
    }
    fn judge(&self, case: &Case, _strict: bool) -> Verdict {
        let mut cfg = case.cfg.clone();
        cfg.use_local_styles = false;
        let first = transform(&case.input, &cfg);
        if let Outcome::Panic(l, _) = &first {
            return Verdict::skip(format!("panic-is-C01:{l}"), vec![], 1);
        }
        let mut evals = 1;
        for rep in 1..REPS {
            let again = transform(&case.input, &cfg);
            evals += 1;
            if again != first {
                let (a, b) = (show(&first), show(&again));
                let pos = a.bytes().zip(b.bytes()).position(|(x, y)| x != y).unwrap_or(a.len().min(b.len()));
                let what = if a.starts_with("Ok") && b.starts_with("Ok") {
                    if a[..pos.min(a.len())].rfind("<style").map(|i| !a[i..pos.min(a.len())].contains("</style>")).unwrap_or(false) {
                        "style-rules"
                    } else if a[..pos.min(a.len())].rfind("<defs").map(|i| !a[i..pos.min(a.len())].contains("</defs>")).unwrap_or(false) {
                        "defs"
                    } else {
                        "body"
                    }
                } else if a.starts_with("Err") && b.starts_with("Err") {
                    "error-text"
                } else {
                    "ok-vs-err"
                };
                return Verdict::fail(
                    format!("c06:repetition-differs:{what}"),
                    format!("repetition {rep} differs from the first run at byte {pos}\n--- input ---\n{}\n--- config ---\n{:?}\n--- first ---\n{}\n--- again ---\n{}", case.input, cfg, crate::run::trunc(&a, 2500), crate::run::trunc(&b, 2500)),
                    vec![],
                    evals,
                );
            }
        }
        let mut labels = vec![];
        let np = count_pattern_classes(&case.input);
        if np >= 2 {
            labels.push("pattern-classes>=2".to_string());
        }
        let has_random = case.input.contains("random()") || case.input.contains("randint(");
        if has_random {
            labels.push("random-fn".into());
            // sensitivity guard: another seed must be able to change the output
            if let Outcome::Ok(a) = &first {
                let mut c2 = cfg.clone();
                c2.seed = cfg.seed.wrapping_add(0x9E3779B97F4A7C15);
                let mut differs = false;
                for _ in 0..3 {
                    c2.seed = c2.seed.wrapping_mul(6364136223846793005).wrapping_add(1);
                    evals += 1;
                    if let Outcome::Ok(b) = transform(&case.input, &c2) {
                        if &b != a {
                            differs = true;
                            break;
                        }
                    } else {
                        differs = true; // e.g. a random size made an element invalid: still seed dependent
                        break;
                    }
                }
                if differs {
                    labels.push("seed-changes-output".into());
                }
            }
        }
        let multi_err = matches!(&first, Outcome::Err(k, m) if k == "MultiError" && m.matches('\n').count() >= 2);
        if multi_err {
            labels.push("multi-error".into());
        }
        Verdict::pass(np >= 2 || has_random || multi_err, labels, evals as u32)
    }
    fn parent_phase(&self, tier: Tier, seed: u64) -> ParentPhase {
        let mut pp = ParentPhase::default();
        if !std::path::Path::new(CLI_BIN).exists() {
            pp.failures.push(("machinery:no-binaries".into(), format!("{CLI_BIN} missing: run ./run.sh setup"), json!({})));
            return pp;
        }
        let dir = run_dir("c06");
        let n = tier.n(150, 3000);
        let m = tier.n(3, 5);
        let strategies: Vec<(&str, BoxedStrategy<Case>)> = vec![("patterns", fam_patterns(tier)), ("random-fns", fam_random(tier)), ("multi-error", fam_errors(tier))];
        let mut runs = 0usize;
        let mut seed_sensitive = 0usize;
        for i in 0..n {
            let (fname, strat) = &strategies[i % strategies.len()];
            let mut runner = runner_for(seed, "C06-proc", fname, i);
            let case = match strat.new_tree(&mut runner) {
                Ok(t) => t.current(),
                Err(_) => continue,
            };
            let mut cfg = case.cfg.clone();
            cfg.use_local_styles = false;
            let inp = dir.join(format!("p{i}.xml"));
            std::fs::write(&inp, &case.input).expect("write input");
            let mut args = cfg.cli_args();
            args.push(inp.to_string_lossy().to_string());
            // (what the command prints for a failed transform is "the error" of this front-end: compared as well)
            let mut outs: Vec<(Option<i32>, Vec<u8>, Vec<u8>)> = Vec::new();
            for _ in 0..m {
                let r = run_cli(&args, None, &dir, 30.0);
                runs += 1;
                outs.push((r.code, r.stdout, r.stderr));
            }
            if pp.failures.len() >= 3 {
                break;
            }
            if outs.iter().any(|o| *o != outs[0]) {
                pp.failures.push((
                    "c06:fresh-process-differs".into(),
                    format!("{m} fresh svgdx processes gave different stdout / stderr / exit status for the same input and flags {:?}\n--- input ---\n{}", cfg.cli_args(), case.input),
                    json!({"input": case.input, "cfg": cfg}),
                ));
            }
            // library vs process agreement is C07's business; here: seed sensitivity of the binary
            if case.fam == "random-fns" && outs[0].0 == Some(0) {
                let mut c2 = cfg.clone();
                c2.seed = cfg.seed ^ 0x5555;
                let mut a2 = c2.cli_args();
                a2.push(inp.to_string_lossy().to_string());
                let r = run_cli(&a2, None, &dir, 30.0);
                runs += 1;
                if r.stdout != outs[0].1 {
                    seed_sensitive += 1;
                }
            }
            let _ = std::fs::remove_file(&inp);
            pp.nontrivial_hashes.push(hash_bytes(case.input.as_bytes()) ^ 0xC06);
            if pp.samples.len() < 2 {
                pp.samples.push(json!({"fresh_process_case": {"flags": cfg.cli_args(), "input": crate::run::trunc(&case.input, 600)}}));
            }
        }
        pp.evaluations = runs;
        pp.coverage.insert("fresh_process_runs".into(), json!(runs));
        pp.coverage.insert("fresh_process_cases".into(), json!(n));
        pp.coverage.insert("processes_per_case".into(), json!(m));
        pp.coverage.insert("cli_seed_changed_output".into(), json!(seed_sensitive));
        let _ = std::fs::remove_dir_all(&dir);
        pp
    }
}
