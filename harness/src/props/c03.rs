//! C03 Real SVG (namespaced root) passes through with an identical XML infoset.

use crate::engine::{Family, Property, Tier, Verdict};
use crate::gen;
use crate::props::c02::SVG_NS;
use crate::run::{transform, Cfg, Outcome};
use crate::sxml::{self, Ev};
use proptest::collection::vec;
use proptest::prelude::*;
use serde::{Deserialize, Serialize};

pub struct C03;

#[derive(Clone, Debug, Serialize, Deserialize)]
pub struct Case {
    pub input: String,
    pub cfg: Cfg,
    /// true: the namespaced subtree (marked data-embed="1") is embedded in an svgdx document
    pub embedded: bool,
}

// --------------------------------------------------------------------------- XML grammar generator

#[derive(Clone, Debug)]
pub enum TP {
    /// literal characters (escaped as needed when written)
    Lit(String),
    /// a character written as a reference: (char, form) form 0 = named if predefined else decimal, 1 = decimal, 2 = hex
    Ref(char, u8),
}

#[derive(Clone, Debug)]
pub enum XN {
    El { name: String, attrs: Vec<(String, Vec<TP>, bool)>, ws: u8, kids: Vec<XN> },
    Text(Vec<TP>),
    Comment(String),
    CData(String),
    PI(String, String),
}

const EL_NAMES: &[&str] = &[
    "rect", "circle", "g", "text", "tspan", "path", "defs", "style", "title", "desc", "use", "image", "a", "linearGradient", "stop", "filter", "feOffset", "clipPath", "marker", "foreignObject",
    // svgdx-special names must be inert here
    "reuse", "loop", "var", "config", "specs", "if", "for", "defaults", "point", "box", "svg",
    // arbitrary
    "x-custom", "ns:el", "_u", "Ünïcode",
];

const ATTR_NAMES: &[&str] = &[
    "id", "class", "style", "x", "y", "width", "height", "fill", "d", "points", "transform", "href", "xlink:href", "xml:space", "xmlns:xlink", "data-x", "viewBox", "version",
    // svgdx triggers
    "wh", "xy", "cxy", "text", "surround", "inside", "start", "end", "_", "__", "count", "test", "dx", "dy", "text-loc", "margin", "loop-limit",
];

const TRIGGER_VALUES: &[&str] = &[
    "#a|h", "^@tl 3", "{{1 + 2}}", "$v", "${v}", "d-grid-5 d-red", "10 20", "#nope", "url(#x)", "M0 0 z5", "translate(", "a\\nb", "  padded  ", "", "http://www.w3.org/1999/xlink", "preserve", "{{", "}}", "50%",
];

fn ref_char() -> impl Strategy<Value = char> {
    prop_oneof![
        Just('&'), Just('<'), Just('>'), Just('"'), Just('\''), Just('A'), Just(' '), Just('é'), Just('\u{1F600}'), Just('\u{A0}'), Just('\u{200B}'), Just('-'), Just(']'),
    ]
}

fn lit_text(allow_nl: bool) -> impl Strategy<Value = String> {
    let base = prop_oneof![
        4 => "[a-zA-Z0-9 .,;:!?()*+=/_-]{0,12}",
        2 => gen::hostile(3),
        1 => (0..TRIGGER_VALUES.len()).prop_map(|i| TRIGGER_VALUES[i].to_string()),
        1 => Just("]]>".to_string()),
        1 => Just(" \u{3000}trailing  ".to_string()),
    ];
    if allow_nl {
        prop_oneof![
            3 => base,
            1 => Just("\n  ".to_string()),
            1 => Just("line one  \n  line two \n\n".to_string()),
            1 => Just("x \n".to_string()),
        ]
        .boxed()
    } else {
        base.boxed()
    }
}

fn pieces(allow_nl: bool) -> impl Strategy<Value = Vec<TP>> {
    vec(prop_oneof![3 => lit_text(allow_nl).prop_map(TP::Lit), 1 => (ref_char(), 0u8..3).prop_map(|(c, f)| TP::Ref(c, f))], 0..4)
}

fn attr() -> impl Strategy<Value = (String, Vec<TP>, bool)> {
    ((0..ATTR_NAMES.len()), pieces(false), any::<bool>()).prop_map(|(i, v, q)| (ATTR_NAMES[i].to_string(), v, q))
}

fn node() -> impl Strategy<Value = XN> {
    let leaf = prop_oneof![
        3 => pieces(true).prop_map(XN::Text),
        1 => "[a-zA-Z0-9 <>&'\"$#{}.,-]{0,16}".prop_map(|s| {
            let mut s = s;
            while s.contains("--") {
                s = s.replace("--", "- -");
            }
            XN::Comment(s.trim_end_matches('-').to_string())
        }),
        1 => "[a-zA-Z0-9 <>&'\"$#{}.,\\]\n-]{0,16}".prop_map(|s| XN::CData(s.replace("]]>", "]] >"))),
        1 => ("[a-zA-Z_][a-zA-Z0-9_.-]{0,6}", "[a-zA-Z0-9 <>&'\"=.-]{0,12}").prop_map(|(t, d)| {
            let t = if t.eq_ignore_ascii_case("xml") { "xmlx".to_string() } else { t };
            XN::PI(t, d.replace("?>", "? >").trim_start().to_string())
        }),
        3 => ((0..EL_NAMES.len()), vec(attr(), 0..4), any::<u8>()).prop_map(|(i, attrs, ws)| XN::El { name: EL_NAMES[i].to_string(), attrs: dedup(attrs), ws, kids: vec![] }),
    ];
    leaf.prop_recursive(4, 24, 5, |inner| {
        ((0..EL_NAMES.len()), vec(attr(), 0..4), any::<u8>(), vec(inner, 0..5)).prop_map(|(i, attrs, ws, kids)| XN::El { name: EL_NAMES[i].to_string(), attrs: dedup(attrs), ws, kids })
    })
}

fn dedup(attrs: Vec<(String, Vec<TP>, bool)>) -> Vec<(String, Vec<TP>, bool)> {
    let mut seen = std::collections::HashSet::new();
    attrs.into_iter().filter(|(k, _, _)| k != "xmlns" && seen.insert(k.clone())).collect()
}

fn write_ref(c: char, form: u8, out: &mut String) {
    let named = match c {
        '&' => Some("amp"),
        '<' => Some("lt"),
        '>' => Some("gt"),
        '"' => Some("quot"),
        '\'' => Some("apos"),
        _ => None,
    };
    match (form, named) {
        (0, Some(n)) => {
            out.push('&');
            out.push_str(n);
            out.push(';');
        }
        (2, _) => out.push_str(&format!("&#x{:X};", c as u32)),
        _ => out.push_str(&format!("&#{};", c as u32)),
    }
}

fn write_pieces(p: &[TP], quote: Option<char>, out: &mut String) {
    for tp in p {
        match tp {
            TP::Ref(c, f) => write_ref(*c, *f, out),
            TP::Lit(s) => {
                for c in s.chars() {
                    match c {
                        '&' => out.push_str("&amp;"),
                        '<' => out.push_str("&lt;"),
                        '>' if quote.is_none() => out.push_str("&gt;"),
                        '\t' | '\r' => out.push(' '),
                        '\n' if quote.is_some() => out.push(' '),
                        c if Some(c) == quote => out.push_str(if c == '"' { "&quot;" } else { "&apos;" }),
                        c => out.push(c),
                    }
                }
            }
        }
    }
}

pub fn write_node(n: &XN, out: &mut String) {
    match n {
        XN::Text(p) => write_pieces(p, None, out),
        XN::Comment(c) => {
            out.push_str("<!--");
            out.push_str(c);
            out.push_str("-->");
        }
        XN::CData(c) => {
            out.push_str("<![CDATA[");
            out.push_str(c);
            out.push_str("]]>");
        }
        XN::PI(t, d) => {
            out.push_str("<?");
            out.push_str(t);
            if !d.is_empty() {
                out.push(' ');
                out.push_str(d);
            }
            out.push_str("?>");
        }
        XN::El { name, attrs, ws, kids } => {
            out.push('<');
            out.push_str(name);
            for (i, (k, v, single)) in attrs.iter().enumerate() {
                out.push_str(match (ws >> (i % 3)) & 3 {
                    0 | 1 => " ",
                    2 => "  ",
                    _ => "\n    ",
                });
                out.push_str(k);
                out.push_str(if ws & 64 != 0 && i == 0 { " = " } else { "=" });
                let q = if *single { '\'' } else { '"' };
                out.push(q);
                write_pieces(v, Some(q), out);
                out.push(q);
            }
            if ws & 128 != 0 {
                out.push(' ');
            }
            if kids.is_empty() && ws & 32 == 0 {
                out.push_str("/>");
            } else {
                out.push('>');
                for k in kids {
                    write_node(k, out);
                }
                out.push_str("</");
                out.push_str(name);
                out.push('>');
            }
        }
    }
}

fn ns_root(kids: Vec<XN>, root_attrs: Vec<(String, Vec<TP>, bool)>, ws: u8, marker: bool) -> String {
    let mut attrs: Vec<(String, Vec<TP>, bool)> = Vec::new();
    let pos = (ws as usize) % (root_attrs.len() + 1);
    for (i, a) in root_attrs.into_iter().enumerate() {
        if i == pos {
            attrs.push(("xmlns".into(), vec![TP::Lit(SVG_NS.into())], ws & 16 != 0));
        }
        attrs.push(a);
    }
    if !attrs.iter().any(|(k, _, _)| k == "xmlns") {
        attrs.push(("xmlns".into(), vec![TP::Lit(SVG_NS.into())], ws & 16 != 0));
    }
    if marker {
        attrs.push(("data-embed".into(), vec![TP::Lit("1".into())], false));
    }
    let mut s = String::new();
    // (a document root is always written as a start/end tag pair; an embedded subtree may be an empty-element tag)
    write_node(&XN::El { name: "svg".into(), attrs, ws: if marker { ws } else { ws | 32 }, kids }, &mut s);
    s
}

/// Well-formed namespaced documents (also used by the sxml-vs-expat selftest).
pub fn document_strategy() -> BoxedStrategy<String> {
    (vec(node(), 0..6), vec(attr(), 0..4), any::<u8>(), any::<u8>())
        .prop_map(|(kids, ra, ws, pre)| {
            let mut s = String::new();
            if pre & 1 != 0 {
                s.push_str(if pre & 2 != 0 { "<?xml version=\"1.0\" encoding=\"UTF-8\" standalone=\"no\"?>\n" } else { "<?xml version='1.0'?>" });
            }
            if pre & 4 != 0 {
                s.push_str("<!-- leading -->\n");
            }
            if pre & 8 != 0 {
                s.push_str("<!DOCTYPE svg PUBLIC \"-//W3C//DTD SVG 1.1//EN\" \"http://www.w3.org/Graphics/SVG/1.1/DTD/svg11.dtd\">\n");
            }
            if pre & 16 != 0 {
                s.push_str("<?xml-stylesheet href=\"a.css\" type=\"text/css\"?>\n");
            }
            s.push_str(&ns_root(kids, dedup(ra), ws, false));
            if pre & 32 != 0 {
                s.push_str("\n<!-- trailing -->");
            }
            if pre & 64 != 0 {
                s.push_str("<?after x?>\n");
            }
            if pre & 128 != 0 {
                s.push('\n');
            }
            s
        })
        .boxed()
}

fn fam_document(_t: Tier) -> BoxedStrategy<Case> {
    (document_strategy(), gen::cfg_hostile()).prop_map(|(input, cfg)| Case { input, cfg, embedded: false }).boxed()
}

fn fam_embedded(_t: Tier) -> BoxedStrategy<Case> {
    (vec(node(), 0..5), vec(attr(), 0..3), any::<u8>(), 0u8..8, gen::cfg_benign())
        .prop_map(|(kids, ra, ws, place, cfg)| {
            let sub = ns_root(kids, dedup(ra), ws, true);
            let doc = match place {
                0 => format!("<svg>\n  <rect id=\"a\" xy=\"0\" wh=\"10\" text=\"hi\"/>\n  {sub}\n  <circle xy=\"#a|h 3\" r=\"4\"/>\n</svg>"),
                1 => format!("<svg>{sub}</svg>"),
                2 => format!("<svg><g id=\"grp\" transform=\"translate(3 4)\"><rect wh=\"5\"/>{sub}</g><rect xy=\"#grp|v\" wh=\"2\"/></svg>"),
                3 => format!("<rect wh=\"5\"/>\n{sub}\n<rect xy=\"^|h\" wh=\"5\"/>"),
                4 => format!("<svg><defs>{sub}</defs><rect wh=\"5\"/></svg>"),
                // defaults that would match an <svg> element are in scope: the pass-through subtree is not an svgdx element
                6 => format!("<svg><defaults><svg fill=\"red\" class=\"k\" data-d=\"1\"/><rect rx=\"2\"/><_ stroke=\"blue\"/></defaults>{sub}<rect wh=\"3\"/></svg>"),
                7 => format!("<svg><defaults><svg match=\"*\" opacity=\"0.5\"/></defaults><g>{sub}</g></svg>"),
                _ => format!("<svg><var v=\"7\"/><if test=\"1\">{sub}</if><rect wh=\"$v\"/></svg>"),
            };
            Case { input: doc, cfg, embedded: true }
        })
        .boxed()
}

/// documents whose DOCTYPE declares general entities that attribute values and text then refer to
fn fam_entities(_t: Tier) -> BoxedStrategy<Case> {
    (any::<u8>(), any::<u8>(), gen::cfg_benign())
        .prop_map(|(m, k, cfg)| {
            let root_attr = if m & 1 != 0 { " data-tone=\"&ink;\"" } else { "" };
            let mut body = String::new();
            if m & 2 != 0 {
                body.push_str("  <rect x=\"1\" y=\"1\" width=\"8\" height=\"8\" stroke=\"&ink;\" fill=\"none\"/>\n");
            }
            if m & 4 != 0 {
                body.push_str("  <text x=\"12\" y=\"6\" fill=\"&ink;\">a &amp; &lbl; b</text>\n");
            }
            if m & 8 != 0 {
                body.push_str("  <g id=\"g&num;\"><title>&lbl;</title><circle r=\"&num;\" class=\"c &lbl;\"/></g>\n");
            }
            if m & 16 != 0 {
                body.push_str("  <desc>&lbl;&lbl; &#38; &lt;</desc>\n");
            }
            let decl = if k % 2 == 0 { "<?xml version=\"1.0\"?>\n" } else { "" };
            let input = format!(
                "{decl}<!DOCTYPE svg [\n  <!ENTITY ink \"#204060\">\n  <!ENTITY lbl \"hello\">\n  <!ENTITY num \"7\">\n]>\n<svg xmlns=\"{SVG_NS}\" viewBox=\"0 0 20 10\"{root_attr}>\n{body}</svg>"
            );
            Case { input, cfg, embedded: false }
        })
        .boxed()
}

fn corpus_cases() -> Vec<Case> {
    // namespaced documents from the repository's tests (expected outputs, round-trip inputs)
    let mut out = Vec::new();
    for (_n, s) in gen::corpus_strings() {
        if let Ok(evs) = sxml::parse_document(&s) {
            let ns = evs.iter().find_map(|e| match e {
                Ev::Start { name, attrs, .. } => Some(name == "svg" && attrs.iter().any(|(k, v)| k == "xmlns" && v == SVG_NS)),
                _ => None,
            });
            if ns == Some(true) && !has_ws_attr(&evs) && !s.contains('\r') {
                out.push(Case { input: s.clone(), cfg: Cfg::default(), embedded: false });
                out.push(Case { input: s, cfg: Cfg { debug: true, add_metadata: true, theme: "dark".into(), border: 20, ..Cfg::default() }, embedded: false });
            }
        }
    }
    out
}

/// Is this a well-formed document with a namespaced <svg> root, inside the domain the round-trip oracle covers?
pub fn in_passthrough_domain(s: &str) -> bool {
    if s.contains('\r') {
        return false;
    }
    match sxml::parse_document(s) {
        Ok(evs) => {
            let ns = evs.iter().find_map(|e| match e {
                Ev::Start { name, attrs, .. } => Some(name == "svg" && attrs.iter().any(|(k, v)| k == "xmlns" && v == SVG_NS)),
                _ => None,
            });
            ns == Some(true) && !has_ws_attr(&evs)
        }
        Err(_) => false,
    }
}

fn has_ws_attr(evs: &[Ev]) -> bool {
    evs.iter().any(|e| matches!(e, Ev::Start { attrs, .. } if attrs.iter().any(|(_, v)| v.contains(['\t', '\n', '\r']))))
}

fn subtree(evs: &[Ev]) -> Option<Vec<Ev>> {
    let start = evs.iter().position(|e| matches!(e, Ev::Start { name, attrs, .. } if name == "svg" && attrs.iter().any(|(k, _)| k == "data-embed")))?;
    let mut depth = 0i32;
    for (i, e) in evs[start..].iter().enumerate() {
        match e {
            Ev::Start { empty: false, .. } => depth += 1,
            Ev::End { .. } => depth -= 1,
            _ => {}
        }
        if depth == 0 {
            return Some(evs[start..=start + i].to_vec());
        }
    }
    None
}

fn norm_misc(evs: Vec<Ev>) -> Vec<Ev> {
    evs.into_iter()
        .map(|e| match e {
            Ev::Doctype(d) => Ev::Doctype(d.split_whitespace().collect::<Vec<_>>().join(" ")),
            Ev::Decl(d) => Ev::Decl(d.trim().to_string()),
            e => e,
        })
        .collect()
}

fn first_diff(a: &[Ev], b: &[Ev]) -> String {
    for i in 0..a.len().max(b.len()) {
        if a.get(i) != b.get(i) {
            return format!("event {i}: input {:?} vs output {:?}", a.get(i), b.get(i));
        }
    }
    "no difference".into()
}

fn diff_kind(a: &[Ev], b: &[Ev]) -> String {
    for i in 0..a.len().max(b.len()) {
        match (a.get(i), b.get(i)) {
            (x, y) if x == y => continue,
            (Some(Ev::Text(x)), Some(Ev::Text(y))) => {
                let strip = |s: &str| s.lines().map(|l| l.trim_end()).collect::<Vec<_>>().join("\n");
                if strip(x) == strip(y) {
                    return "text-trailing-space-trimmed".into();
                }
                return "text-differs".into();
            }
            (Some(Ev::Start { name: n1, attrs: a1, .. }), Some(Ev::Start { name: n2, attrs: a2, .. })) if n1 == n2 => {
                let k1: Vec<_> = a1.iter().map(|(k, _)| k).collect();
                let k2: Vec<_> = a2.iter().map(|(k, _)| k).collect();
                if k1 != k2 {
                    // an empty class attribute disappearing is part of the listed class-list finding
                    let drop_empty_class = |a: &Vec<(String, String)>| -> Vec<(String, String)> { a.iter().filter(|(k, v)| !(k == "class" && v.split(' ').all(|t| t.is_empty()))).cloned().collect() };
                    if drop_empty_class(a1) == drop_empty_class(a2) {
                        return "class-list-normalised".into();
                    }
                    return "attr-set-differs".into();
                }
                // narrow class for the listed finding: only `class` differs, and only by
                // separator spaces / duplicate tokens
                let toks = |v: &str| -> Vec<String> {
                    let mut out: Vec<String> = Vec::new();
                    for t in v.split(' ') {
                        if !out.iter().any(|o| o == t) {
                            out.push(t.to_string());
                        }
                    }
                    out
                };
                let only_class = a1.iter().zip(a2.iter()).all(|((ka, va), (_, vb))| va == vb || (ka == "class" && toks(va) == toks(vb)));
                return if only_class { "class-list-normalised".into() } else { "attr-value-differs".into() };
            }
            (Some(x), Some(y)) => return format!("{}-vs-{}", ev_kind(x), ev_kind(y)),
            (Some(x), None) => return format!("missing-{}", ev_kind(x)),
            (None, Some(y)) => return format!("extra-{}", ev_kind(y)),
            (None, None) => {}
        }
    }
    "none".into()
}

fn ev_kind(e: &Ev) -> &'static str {
    match e {
        Ev::Decl(_) => "decl",
        Ev::Doctype(_) => "doctype",
        Ev::PI { .. } => "pi",
        Ev::Comment(_) => "comment",
        Ev::Start { .. } => "start",
        Ev::End { .. } => "end",
        Ev::Text(_) => "text",
        Ev::CData(_) => "cdata",
    }
}

fn nontrivial(evs: &[Ev], raw: &str) -> bool {
    raw.contains('&')
        || evs.iter().any(|e| match e {
            Ev::PI { .. } | Ev::CData(_) => true,
            Ev::Start { attrs, .. } => attrs.iter().any(|(k, v)| k.contains(':') || v.contains(['"', '\'', '<', '>', '#', '$', '{']) || matches!(k.as_str(), "wh" | "xy" | "text" | "surround" | "_")),
            _ => false,
        })
}

impl Property for C03 {
    type Case = Case;
    fn id(&self) -> &'static str {
        "C03"
    }
    fn rule(&self) -> String {
        "cases = (well-formed XML document rooted at <svg xmlns=SVG-namespace>, config) generated from the XML grammar: any element names (SVG, svgdx-special, arbitrary), attributes incl. every svgdx trigger, \
         both quote styles, whitespace variation inside tags, empty vs start/end pairs, character/entity references, Unicode, comments, CDATA, PIs, XML declaration, doctype, prolog/epilog; second family embeds such a subtree in an svgdx document; \
         third: namespaced documents from the repository corpus. Oracle: infoset(sxml(output)) == infoset(sxml(input)) as event lists (attribute order and empty-vs-pair ignored; for the embedded family the sub-list of the marked subtree). \
         Non-trivial = contains a reference, quote/angle bracket/svgdx trigger in a value, prefixed attribute, PI or CDATA; distinct by hash of the case. TAB/LF/CR are not generated in attribute values and CR nowhere."
            .into()
    }
    fn assumptions(&self) -> Vec<String> {
        vec![
            "sxml is correct (cross-checked with expat in selftest)".into(),
            "attribute-value whitespace normalisation and line-end normalisation are out of scope (neither quick-xml nor sxml applies them)".into(),
        ]
    }
    fn families(&self, tier: Tier) -> Vec<Family<Case>> {
        vec![
            Family::random("document", tier.n(48_000, 250_000), fam_document),
            Family::random("embedded", tier.n(16_000, 80_000), fam_embedded),
            Family::random("doctype-entities", tier.n(600, 3_000), fam_entities),
            Family::fixed("corpus", corpus_cases()),
        ]
    }
    fn fuzz(&self) -> Option<crate::engine::FuzzSpec<Case>> {
        fn decode(data: &[u8]) -> Option<Case> {
            let (k, doc) = crate::fuzzrider::split(data)?;
            let input = String::from_utf8(doc.to_vec()).ok()?;
            if !in_passthrough_domain(&input) {
                return None;
            }
            Some(Case { input, cfg: crate::fuzzrider::cfg_table()[k].clone(), embedded: false })
        }
        Some(crate::engine::FuzzSpec { target: "c03_roundtrip", secs: 180, decode })
    }
    fn judge(&self, case: &Case, _strict: bool) -> Verdict {
        let parse_in = if case.embedded { sxml::parse_content(&case.input) } else { sxml::parse_document(&case.input) };
        let in_evs = match parse_in {
            Ok(e) => e,
            Err(e) => return Verdict::skip(format!("generator-produced-illformed-input:{}", e.msg), vec![], 0),
        };
        let out = match transform(&case.input, &case.cfg) {
            Outcome::Ok(s) => s,
            Outcome::Err(k, m) => {
                if case.embedded {
                    // the surrounding svgdx document may legitimately fail; pass-through itself must not
                    return Verdict::skip(format!("outer-document-failed:{k}"), vec![], 1);
                }
                return Verdict::fail(
                    format!("c03:passthrough-failed:{k}"),
                    format!("transform of a well-formed namespaced document failed: {m}\n--- input ---\n{}", case.input),
                    vec![],
                    1,
                );
            }
            Outcome::Panic(l, m) => return Verdict::fail(format!("c03:panic:{l}"), format!("{m}\n--- input ---\n{}", case.input), vec![], 1),
        };
        let parse_out = if case.embedded { sxml::parse_content(&out) } else { sxml::parse_document(&out) };
        let out_evs = match parse_out {
            Ok(e) => e,
            Err(e) => {
                return Verdict::fail("c03:output-illformed", format!("{e}\n--- input ---\n{}\n--- output ---\n{}", case.input, out), vec![], 1);
            }
        };
        let (a, b) = if case.embedded {
            match (subtree(&in_evs), subtree(&out_evs)) {
                (Some(a), Some(b)) => (a, b),
                (Some(_), None) => {
                    // inside <defs>/<if> etc. the subtree must still be there
                    return Verdict::fail("c03:embedded-subtree-missing", format!("--- input ---\n{}\n--- output ---\n{}", case.input, out), vec![], 1);
                }
                _ => return Verdict::skip("no-marked-subtree-in-input", vec![], 1),
            }
        } else {
            (in_evs.clone(), out_evs)
        };
        let a = norm_misc(sxml::normalise(&a));
        let b = norm_misc(sxml::normalise(&b));
        if a == b {
            let mut labels = vec![];
            if case.embedded {
                labels.push("embedded".to_string());
            }
            for (k, l) in [("&", "refs"), ("<![CDATA[", "cdata"), ("<?", "pi"), ("<!DOCTYPE", "doctype"), ("<!--", "comment")] {
                if case.input.contains(k) {
                    labels.push(l.to_string());
                }
            }
            Verdict::pass(nontrivial(&in_evs, &case.input), labels, 1)
        } else {
            Verdict::fail(
                format!("c03:infoset-differs:{}", diff_kind(&a, &b)),
                format!("{}\n--- input ---\n{}\n--- config ---\n{:?}\n--- output ---\n{}", first_diff(&a, &b), case.input, case.cfg, out),
                vec![],
                1,
            )
        }
    }
}
