//! C20 Auto-styles are self-consistent, minimal and leave author styles alone.

use crate::engine::{Family, Property, Tier, Verdict};
use crate::gen::{self, XEl, X};
use crate::run::{transform, Cfg, Outcome, THEMES};
use crate::sxml::{self, Element, Node};
use proptest::collection::vec;
use proptest::prelude::*;
use serde::{Deserialize, Serialize};
use std::collections::{BTreeMap, BTreeSet};

pub struct C20;

/// SVG 1.1 colour keywords (https://www.w3.org/TR/SVG11/types.html#ColorKeywords), transcribed independently of src/colours.rs
pub const COLOURS: &[&str] = &[
    "aliceblue", "antiquewhite", "aqua", "aquamarine", "azure", "beige", "bisque", "black", "blanchedalmond", "blue", "blueviolet", "brown", "burlywood", "cadetblue", "chartreuse", "chocolate", "coral",
    "cornflowerblue", "cornsilk", "crimson", "cyan", "darkblue", "darkcyan", "darkgoldenrod", "darkgray", "darkgreen", "darkgrey", "darkkhaki", "darkmagenta", "darkolivegreen", "darkorange", "darkorchid",
    "darkred", "darksalmon", "darkseagreen", "darkslateblue", "darkslategray", "darkslategrey", "darkturquoise", "darkviolet", "deeppink", "deepskyblue", "dimgray", "dimgrey", "dodgerblue", "firebrick",
    "floralwhite", "forestgreen", "fuchsia", "gainsboro", "ghostwhite", "gold", "goldenrod", "gray", "grey", "green", "greenyellow", "honeydew", "hotpink", "indianred", "indigo", "ivory", "khaki", "lavender",
    "lavenderblush", "lawngreen", "lemonchiffon", "lightblue", "lightcoral", "lightcyan", "lightgoldenrodyellow", "lightgray", "lightgreen", "lightgrey", "lightpink", "lightsalmon", "lightseagreen",
    "lightskyblue", "lightslategray", "lightslategrey", "lightsteelblue", "lightyellow", "lime", "limegreen", "linen", "magenta", "maroon", "mediumaquamarine", "mediumblue", "mediumorchid", "mediumpurple",
    "mediumseagreen", "mediumslateblue", "mediumspringgreen", "mediumturquoise", "mediumvioletred", "midnightblue", "mintcream", "mistyrose", "moccasin", "navajowhite", "navy", "oldlace", "olive",
    "olivedrab", "orange", "orangered", "orchid", "palegoldenrod", "palegreen", "paleturquoise", "palevioletred", "papayawhip", "peachpuff", "peru", "pink", "plum", "powderblue", "purple", "red", "rosybrown",
    "royalblue", "saddlebrown", "salmon", "sandybrown", "seagreen", "seashell", "sienna", "silver", "skyblue", "slateblue", "slategray", "slategrey", "snow", "springgreen", "steelblue", "tan", "teal",
    "thistle", "tomato", "turquoise", "violet", "wheat", "white", "whitesmoke", "yellow", "yellowgreen",
];

const TEXT_ONLY: &[&str] = &[
    "d-text-smallest", "d-text-smaller", "d-text-small", "d-text-medium", "d-text-large", "d-text-larger", "d-text-largest", "d-text-monospace", "d-text-italic", "d-text-bold", "d-text-pre",
];
const PLAIN: &[&str] = &["d-dot", "d-dash", "d-thin", "d-thinner", "d-thick", "d-thicker", "d-arrow", "d-biarrow", "d-flow", "d-flow-slower", "d-flow-slow", "d-flow-fast", "d-flow-faster", "d-flow-rev", "d-softshadow", "d-hardshadow"];
const PATTERNS: &[&str] = &["d-grid", "d-stipple", "d-hatch", "d-crosshatch"];

/// the documented vocabulary (styles.md + the colour keyword list)
pub fn vocabulary() -> Vec<String> {
    let mut v: Vec<String> = Vec::new();
    for c in COLOURS.iter().chain(["none"].iter()) {
        v.push(format!("d-{c}"));
        v.push(format!("d-fill-{c}"));
    }
    for c in COLOURS.iter().chain(["none"].iter()) {
        v.push(format!("d-text-{c}"));
        v.push(format!("d-text-ol-{c}"));
    }
    v.extend(TEXT_ONLY.iter().map(|s| s.to_string()));
    v.extend(PLAIN.iter().map(|s| s.to_string()));
    for p in PATTERNS {
        v.push(p.to_string());
        for n in [1u32, 2, 3, 5, 10, 33, 64, 99, 100] {
            v.push(format!("{p}-{n}"));
        }
    }
    v
}

fn in_vocabulary(c: &str) -> bool {
    if let Some(rest) = c.strip_prefix("d-") {
        for p in ["grid-", "stipple-", "hatch-", "crosshatch-"] {
            if let Some(n) = rest.strip_prefix(p) {
                return n.parse::<u32>().map(|n| (1..=100).contains(&n)).unwrap_or(false);
            }
        }
        if TEXT_ONLY.contains(&c) || PLAIN.contains(&c) || PATTERNS.contains(&c) {
            return true;
        }
        let colour = |s: &str| COLOURS.contains(&s);
        if let Some(x) = rest.strip_prefix("text-ol-") {
            return colour(x) || x == "none";
        }
        if let Some(x) = rest.strip_prefix("text-") {
            return colour(x) || x == "none";
        }
        if let Some(x) = rest.strip_prefix("fill-") {
            return colour(x) || x == "none";
        }
        return colour(rest) || rest == "none";
    }
    false
}

#[derive(Clone, Debug, Serialize, Deserialize)]
pub struct El {
    /// 0 rect+text, 1 rect, 2 line, 3 text, 4 circle, 5 polyline, 6 path, 7 connector line
    pub kind: u8,
    pub classes: Vec<String>,
}

#[derive(Clone, Debug, Serialize, Deserialize)]
pub struct Case {
    pub els: Vec<El>,
    pub theme: String,
    pub background: String,
    pub font_family: String,
    pub local: bool,
    pub auto: bool,
    pub rooted: bool,
    pub author: bool,
    pub debug: bool,
    /// the document ends with a nested, namespaced (pass-through) <svg> element - which is not a root
    #[serde(default)]
    pub nested_ns: bool,
    /// classes on the root <svg> element itself
    #[serde(default)]
    pub root_classes: Vec<String>,
}

fn el_xml(i: usize, e: &El) -> XEl {
    let x = i * 14;
    let mut el = match e.kind % 10 {
        // plain SVG text that svgdx leaves as it is (positioned glyph by glyph; mixed content): it carries the author's
        // classes but is not generated text
        8 => XEl::new("text").a("x", format!("{x} {} {}", x + 4, x + 8)).a("y", "84").text("abc"),
        9 => {
            let mut t = XEl::new("text").a("x", format!("{x}")).a("y", "90");
            t.kids.push(X::Text("plain ".into()));
            t.kids.push(X::El(XEl::new("tspan").a("class", e.classes.first().cloned().unwrap_or_else(|| "d-text-monospace".into())).text("mono")));
            t
        }
        0 => XEl::new("rect").a("xy", format!("{x} 0")).a("wh", "10 6").a("text", "label"),
        1 => XEl::new("rect").a("xy", format!("{x} 10")).a("wh", "10 6"),
        2 => XEl::new("line").a("xy1", format!("{x} 20")).a("xy2", format!("{} 26", x + 10)),
        3 => XEl::new("text").a("xy", format!("{x} 30")).a("text", "words"),
        4 => XEl::new("circle").a("cxy", format!("{x} 40")).a("r", "4"),
        5 => XEl::new("polyline").a("points", format!("{x} 50 {} 55 {} 50", x + 5, x + 10)),
        6 => XEl::new("path").a("d", format!("M{x} 60 l5 5 l5 -5")),
        _ => XEl::new("line").a("start", format!("{x} 70")).a("end", format!("{} 75", x + 9)).a("text", "conn"),
    };
    if !e.classes.is_empty() {
        el.set("class", e.classes.join(" "));
    }
    el
}

pub fn case_xml(c: &Case) -> String {
    let mut kids: Vec<X> = Vec::new();
    if c.author {
        let mut st = XEl::new("style");
        st.kids.push(X::Raw("<![CDATA[ /* author */ .mine { fill: url(#auth-grad); } .d-grid-5 { opacity: 0.5; } ]]>".into()));
        kids.push(X::El(st));
        kids.push(X::El(
            XEl::new("defs").a("id", "auth-defs").kid(XEl::new("linearGradient").a("id", "auth-grad").kid(XEl::new("stop").a("offset", "5%").a("stop-color", "gold")).kid(XEl::new("stop").a("offset", "95%").a("stop-color", "red"))).kid(XEl::new("marker").a("id", "auth-marker").a("markerWidth", "4").kid(XEl::new("path").a("d", "M0 0 L4 2 L0 4 z"))),
        ));
        kids.push(X::El(XEl::new("rect").a("xy", "0 -20").a("wh", "5").a("class", "mine")));
    }
    // (the nested <svg> comes before the other elements in every other document: its end tag is not the document's)
    let nested_first = c.nested_ns && c.els.len() % 2 == 1;
    let at = kids.len();
    for (i, e) in c.els.iter().enumerate() {
        let mut el = el_xml(i, e);
        // a class list handed over through a variable is a class list all the same
        if i % 3 == 1 && e.classes.len() >= 2 && e.kind % 10 != 9 {
            kids.push(X::El(XEl::new("var").a(&format!("cv{i}"), e.classes.join(" "))));
            el.set("class", format!("$cv{i}"));
        }
        kids.push(X::El(el));
    }
    if c.nested_ns {
        kids.insert(if nested_first { at } else { kids.len() }, X::El(XEl::new("g").kid(XEl::new("svg").a("xmlns", "http://www.w3.org/2000/svg").a("x", "0").a("y", "40").a("width", "4").a("height", "4").kid(XEl::new("circle").a("cx", "2").a("cy", "2").a("r", "2")))));
    }
    if c.rooted {
        let attrs = if c.root_classes.is_empty() { vec![] } else { vec![("class".to_string(), c.root_classes.join(" "))] };
        XEl { name: "svg".into(), attrs, kids }.to_xml()
    } else {
        kids.iter().map(|k| match k { X::El(e) => e.to_xml(), _ => String::new() }).collect::<Vec<_>>().join("\n")
    }
}

// --------------------------------------------------------------------------- generators

fn class_strategy() -> BoxedStrategy<String> {
    let voc = vocabulary();
    let n = voc.len();
    prop_oneof![
        8 => (0..n).prop_map(move |i| voc[i].clone()),
        2 => (0..PATTERNS.len(), prop_oneof![1u32..=100, Just(0u32), Just(101u32), Just(1000u32)]).prop_map(|(p, k)| format!("{}-{k}", PATTERNS[p])),
        1 => prop_oneof![Just("d-grid-abc"), Just("d-notacolour"), Just("d-fill-notacolour"), Just("d-text-outside"), Just("d-text-vertical"), Just("mine"), Just("d-surround"), Just("d-text-ol"), Just("d-text-ol-thick"), Just("d-dot-dash"), Just("d-grid-h-4"), Just("d-text-top")].prop_map(|s| s.to_string()),
    ]
    .boxed()
}

fn fam_subsets(_t: Tier) -> BoxedStrategy<Case> {
    (vec((0u8..10, vec(class_strategy(), 0..5)), 1..9), 0..6usize, prop_oneof![3 => Just("default".to_string()), 1 => Just("lightgrey".to_string()), 1 => Just("none".to_string())], prop_oneof![3 => Just("sans-serif".to_string()), 1 => Just("Ubuntu Mono".to_string())], prop::bool::weighted(0.15), prop::bool::weighted(0.9), prop::bool::weighted(0.9), prop::bool::weighted(0.3), prop::bool::weighted(0.15), prop::bool::weighted(0.3), prop_oneof![3 => Just(vec![]), 1 => vec(class_strategy(), 1..3)])
        .prop_map(|(els, th, background, font_family, local, auto, rooted, author, debug, nested_ns, root_classes)| Case { els: els.into_iter().map(|(kind, classes)| El { kind, classes }).collect(), theme: THEMES[th].to_string(), background, font_family, local, auto, rooted, author, debug, nested_ns, root_classes })
        .boxed()
}

fn singletons() -> Vec<Case> {
    let mut v = Vec::new();
    let mut voc = vocabulary();
    // the invalid pattern suffixes belong to the sweep too
    for p in PATTERNS {
        for bad in ["0", "101", "abc", "-1", "1000"] {
            voc.push(format!("{p}-{bad}"));
        }
    }
    for (k, c) in voc.iter().enumerate() {
        for th in THEMES {
            // every class on a rect with text, on a line and on a text element
            let els = vec![El { kind: 0, classes: vec![c.clone()] }, El { kind: 2, classes: vec![c.clone()] }, El { kind: 3, classes: vec![c.clone()] }];
            v.push(Case { els, theme: th.to_string(), background: "default".into(), font_family: "sans-serif".into(), local: false, auto: true, rooted: true, author: k % 7 == 0, debug: false, nested_ns: k % 5 == 0, root_classes: vec![] });
        }
        // and once on a shape without any text element in the document
        v.push(Case { els: vec![El { kind: 1, classes: vec![c.clone()] }], theme: "default".into(), background: "default".into(), font_family: "sans-serif".into(), local: false, auto: true, rooted: true, author: false, debug: false, nested_ns: false, root_classes: vec![] });
    }
    v
}

// --------------------------------------------------------------------------- oracle

#[derive(Debug, Default)]
struct Css {
    /// (selector text, body)
    rules: Vec<(String, String)>,
    keyframes: Vec<String>,
}

fn parse_css(text: &str) -> Css {
    let mut css = Css::default();
    for line in text.lines() {
        let l = line.trim();
        if l.is_empty() || l == "}" {
            continue;
        }
        if let Some(rest) = l.strip_prefix("@keyframes") {
            css.keyframes.push(rest.trim().split(|c: char| c.is_whitespace() || c == '{').next().unwrap_or("").to_string());
            continue;
        }
        if l.ends_with('{') && !l[..l.len() - 1].contains('{') {
            continue; // opening of a nesting block (local styles)
        }
        if let Some(i) = l.find('{') {
            css.rules.push((l[..i].trim().to_string(), l[i..].to_string()));
        }
    }
    css
}

fn class_tokens(selector: &str) -> Vec<String> {
    let mut out = Vec::new();
    let b: Vec<char> = selector.chars().collect();
    let mut i = 0;
    while i < b.len() {
        if b[i] == '.' {
            let mut j = i + 1;
            while j < b.len() && (b[j].is_ascii_alphanumeric() || b[j] == '-' || b[j] == '_') {
                j += 1;
            }
            if j > i + 1 {
                out.push(b[i + 1..j].iter().collect());
            }
            i = j;
        } else {
            i += 1;
        }
    }
    out
}

fn url_refs(s: &str) -> Vec<String> {
    let mut out = Vec::new();
    let mut rest = s;
    while let Some(i) = rest.find("url(#") {
        let r = &rest[i + 5..];
        if let Some(j) = r.find(')') {
            out.push(r[..j].to_string());
            rest = &r[j..];
        } else {
            break;
        }
    }
    out
}

fn is_author(e: &Element) -> bool {
    e.attr("id").map(|i| i.starts_with("auth-")).unwrap_or(false) || e.text_content().contains("/* author */")
}

fn text_only_rule_class(c: &str) -> bool {
    // rules produced only when a <text> element exists
    TEXT_ONLY.contains(&c)
}

impl Property for C20 {
    type Case = Case;
    fn id(&self) -> &'static str {
        "C20"
    }
    fn rule(&self) -> String {
        "bounded-exhaustive singletons: every class of the documented vocabulary V (148 colour names x {d-, d-fill-} and 147 x {d-text-, d-text-ol-}, text size / weight / family classes, stroke widths, arrows, dash / flow variants, shadows, pattern classes bare and with suffixes 1..100 sampled at 9 values, plus invalid suffixes 0, 101, 1000, -1, abc) on a rect with text, a line and a text element x 6 themes, and once on a shape in a document without any text; \
         random subsets: 1-8 elements of 8 kinds (incl. connectors and shape text, so classes migrate to generated text) with 0-4 classes each from V, pattern classes with arbitrary suffixes and out-of-vocabulary / functional classes x themes x background / font settings x local styles x debug x author-supplied <style>/<defs> with their own rules, ids and url(#..) x auto-styles off x fragments. V is transcribed from docs/mdbook/src/reference/styles.md, the tutorial and the SVG colour keyword list, not from themes.rs. \
         Oracle on the parsed output: (minimal) every d-class mentioned in an injected rule's selector is carried by some output element, every injected definition is referenced by an injected rule; (complete) every class of V carried by an output element is mentioned by an injected rule (text-only classes only when a <text> exists); (closure) every url(#id) and animation name in injected rules / definitions is defined exactly once among the injected definitions / @keyframes; \
         (non-invasive) author <style>/<defs> are present with identical content; (off) with auto-styles disabled or without a root <svg> nothing is injected. \
         Non-trivial = at least one class of V is used; distinct by hash of the case."
            .into()
    }
    fn assumptions(&self) -> Vec<String> {
        vec!["functional classes outside V (d-text-outside, d-text-vertical, d-surround, ...) and rule order / CSS validity are not judged".into()]
    }
    fn families(&self, tier: Tier) -> Vec<Family<Case>> {
        vec![Family::enumerated("vocabulary-singletons", singletons()), Family::random("subsets", tier.n(20_000, 450_000), fam_subsets)]
    }
    /// "nothing is injected when automatic styles are switched off" through the command's own options
    fn parent_phase(&self, tier: Tier, seed: u64) -> crate::engine::ParentPhase {
        use crate::props::frontends::{run_cli, run_dir, CLI_BIN};
        use proptest::strategy::ValueTree;
        let mut pp = crate::engine::ParentPhase::default();
        if !std::path::Path::new(CLI_BIN).exists() {
            pp.failures.push(("machinery:no-binaries".into(), format!("{CLI_BIN} missing: run ./run.sh setup"), serde_json::json!({})));
            return pp;
        }
        let dir = run_dir("c20");
        let n = tier.n(60, 600);
        let strat = fam_subsets(tier);
        const OFF: [&[&str]; 4] = [&["--no-auto-styles"], &["--no-auto-styles", "--use-local-styles"], &["--no-auto-styles", "--theme", "dark", "--background", "grey"], &["--no-auto-styles", "--debug", "--add-metadata"]];
        for i in 0..n {
            let mut runner = crate::engine::runner_for(seed, "C20-cli", "off", i);
            let Ok(tree) = strat.new_tree(&mut runner) else { continue };
            let mut case = tree.current();
            case.rooted = true;
            case.auto = true; // no <config> in the document: the option alone must do it
            let doc = case_xml(&case);
            let inp = dir.join(format!("d{i}.xml"));
            if std::fs::write(&inp, &doc).is_err() {
                continue;
            }
            let flags = OFF[i % OFF.len()];
            let mut args: Vec<String> = flags.iter().map(|s| s.to_string()).collect();
            args.push(inp.to_string_lossy().to_string());
            let r = run_cli(&args, None, &dir, 30.0);
            pp.evaluations += 1;
            if r.code != Some(0) {
                continue;
            }
            let out = String::from_utf8_lossy(&r.stdout).to_string();
            let Ok(tree) = sxml::parse_tree(&out) else { continue };
            let injected = tree.descendants().iter().any(|e| (e.name == "style" || e.name == "defs") && !is_author(e));
            pp.nontrivial_hashes.push(crate::engine::hash_bytes(doc.as_bytes()) ^ i as u64);
            if injected && pp.failures.len() < 3 {
                pp.failures.push((
                    format!("c20:cli:injected-although-disabled:{}", flags.join(" ")),
                    format!("svgdx {} still injected a <style> / <defs> block\n--- document ---\n{doc}\n--- output ---\n{}", flags.join(" "), crate::run::trunc(&out, 3000)),
                    serde_json::json!({"doc": doc, "flags": flags}),
                ));
            }
        }
        pp.labels.push("cli:auto-styles-off".into());
        let _ = std::fs::remove_dir_all(&dir);
        pp
    }
    fn judge(&self, c: &Case, _strict: bool) -> Verdict {
        let doc = case_xml(c);
        let cfg = Cfg { theme: c.theme.clone(), background: c.background.clone(), font_family: c.font_family.clone(), use_local_styles: c.local, add_auto_styles: c.auto, debug: c.debug, ..Cfg::default() };
        let out = match transform(&doc, &cfg) {
            Outcome::Ok(o) => o,
            Outcome::Err(k, m) => return Verdict::fail(format!("c20:transform-failed:{k}"), format!("{}\n--- document ---\n{doc}", crate::run::trunc(&m, 1200)), vec![], 1),
            Outcome::Panic(l, m) => return Verdict::fail(format!("c20:panic:{l}"), m, vec![], 1),
        };
        let tree = match sxml::parse_tree(&out) {
            Ok(t) => t,
            Err(e) => return Verdict::fail("c20:output-illformed", format!("{e}\n{out}"), vec![], 1),
        };
        let ctx = || format!("--- document (theme {}, auto {}, local {}) ---\n{doc}\n--- output ---\n{}", c.theme, c.auto, c.local, crate::run::trunc(&out, 6000));
        let all = tree.descendants();
        let injected_styles: Vec<&&Element> = all.iter().filter(|e| e.name == "style" && !is_author(e)).collect();
        let injected_defs: Vec<&&Element> = all.iter().filter(|e| e.name == "defs" && !is_author(e)).collect();
        // ---- off
        if !c.auto || !c.rooted {
            if !injected_styles.is_empty() || !injected_defs.is_empty() {
                return Verdict::fail(format!("c20:injected-although-{}", if !c.auto { "disabled" } else { "fragment" }), ctx(), vec![], 1);
            }
        }
        // ---- non-invasive
        if c.author {
            let find = |name: &str| all.iter().find(|e| e.name == name && is_author(e)).copied();
            let (st, df) = (find("style"), find("defs"));
            let ok_style = st.map(|s| s.text_content().split_whitespace().collect::<Vec<_>>().join(" ") == "/* author */ .mine { fill: url(#auth-grad); } .d-grid-5 { opacity: 0.5; }").unwrap_or(false);
            let ok_defs = df
                .map(|d| {
                    let g = d.find_id("auth-grad");
                    let m = d.find_id("auth-marker");
                    g.map(|g| g.name == "linearGradient" && g.child_elements().count() == 2 && g.child_elements().all(|s| s.name == "stop" && s.has_attr("offset") && s.has_attr("stop-color"))).unwrap_or(false)
                        && m.map(|m| m.attr("markerWidth") == Some("4") && m.child_elements().next().map(|p| p.attr("d") == Some("M0 0 L4 2 L0 4 z")).unwrap_or(false)).unwrap_or(false)
                        && d.child_elements().count() == 2
                })
                .unwrap_or(false);
            if !ok_style || !ok_defs {
                return Verdict::fail(format!("c20:author-{}-changed", if !ok_style { "style" } else { "defs" }), ctx(), vec![], 1);
            }
        }
        // classes carried by output elements
        let mut used: BTreeSet<String> = BTreeSet::new();
        for e in &all {
            for cl in e.classes() {
                used.insert(cl.to_string());
            }
        }
        let has_text = all.iter().any(|e| e.name == "text");
        let v_used: Vec<&String> = used.iter().filter(|c| in_vocabulary(c)).collect();
        let mut labels = vec![format!("theme:{}", c.theme)];
        if c.local {
            labels.push("local-styles".into());
        }
        if c.author {
            labels.push("author-styles".into());
        }
        if !c.auto || !c.rooted {
            labels.push("injection-off".into());
            return Verdict::pass(!v_used.is_empty(), labels, 1);
        }
        // ---- parse what was injected
        let mut css = Css::default();
        for s in &injected_styles {
            let p = parse_css(&s.text_content());
            css.rules.extend(p.rules);
            css.keyframes.extend(p.keyframes);
        }
        let mut def_ids: BTreeMap<String, usize> = BTreeMap::new();
        let mut def_text = String::new();
        for d in &injected_defs {
            for k in d.child_elements() {
                if let Some(id) = k.attr("id") {
                    *def_ids.entry(id.to_string()).or_default() += 1;
                }
                for x in k.descendants() {
                    for (_, v) in &x.attrs {
                        def_text.push_str(v);
                        def_text.push(' ');
                    }
                }
            }
        }
        // ---- minimal: every class mentioned by a rule is in use
        for (sel, body) in &css.rules {
            for cl in class_tokens(sel) {
                if cl.starts_with("d-") && !used.contains(&cl) {
                    let fam = if cl.contains("grid") || cl.contains("hatch") || cl.contains("stipple") { "pattern" } else if cl.starts_with("d-text") { "text" } else { "other" };
                    return Verdict::fail(format!("c20:rule-for-unused-class:{fam}"), format!("rule `{sel} {body}` mentions .{cl}, which no output element carries\n{}", ctx()), labels, 1);
                }
            }
        }
        // ---- complete: every vocabulary class in use has a rule
        for cl in &v_used {
            if text_only_rule_class(cl) && !has_text {
                continue;
            }
            let mentioned = css.rules.iter().any(|(sel, _)| class_tokens(sel).iter().any(|t| &t == cl));
            if !mentioned {
                let fam = if cl.contains("grid") || cl.contains("hatch") || cl.contains("stipple") { "pattern" } else if cl.contains("arrow") { "arrow" } else if cl.starts_with("d-text") { "text" } else if cl.contains("flow") || cl.contains("dash") || cl.contains("dot") { "dash-flow" } else if cl.contains("shadow") { "shadow" } else if cl.contains("thi") { "stroke-width" } else { "colour" };
                return Verdict::fail(format!("c20:no-rule-for-used-class:{fam}"), format!("class {cl} is carried by an output element but no injected rule mentions it\n{}", ctx()), labels, 1);
            }
        }
        // ---- closure
        let mut refs: Vec<String> = Vec::new();
        for (_, body) in &css.rules {
            refs.extend(url_refs(body));
        }
        refs.extend(url_refs(&def_text));
        for r in &refs {
            match def_ids.get(r) {
                Some(1) => {}
                Some(n) => return Verdict::fail("c20:definition-duplicated", format!("url(#{r}) is defined {n} times\n{}", ctx()), labels, 1),
                None => return Verdict::fail(format!("c20:dangling-url:{}", if r.contains("arrow") { "marker" } else if r.contains("shadow") { "filter" } else { "pattern" }), format!("url(#{r}) is referenced by an injected rule but not defined among the injected definitions {:?}\n{}", def_ids.keys().collect::<Vec<_>>(), ctx()), labels, 1),
            }
        }
        for (id, n) in &def_ids {
            if *n != 1 {
                return Verdict::fail("c20:definition-duplicated", format!("injected definition #{id} appears {n} times\n{}", ctx()), labels, 1);
            }
            if !refs.contains(id) {
                return Verdict::fail("c20:definition-without-rule", format!("injected definition #{id} is not referenced by any injected rule\n{}", ctx()), labels, 1);
            }
        }
        for (_, body) in &css.rules {
            if let Some(i) = body.find("animation:") {
                let val = body[i + 10..].split(';').next().unwrap_or("");
                if let Some(name) = val.split_whitespace().last() {
                    let n = css.keyframes.iter().filter(|k| k.as_str() == name).count();
                    if n != 1 {
                        return Verdict::fail("c20:animation-not-defined-once", format!("animation '{name}' has {n} @keyframes definitions\n{}", ctx()), labels, 1);
                    }
                }
            }
        }
        for k in &css.keyframes {
            if !css.rules.iter().any(|(_, b)| b.contains(k.as_str())) {
                return Verdict::fail("c20:keyframes-without-rule", format!("@keyframes {k} is not used by any rule\n{}", ctx()), labels, 1);
            }
        }
        let _ = (gen::LOCS, Node::Text(String::new()));
        Verdict::pass(!v_used.is_empty(), labels, 1)
    }
}
