//! C04 Standard SVG content inside svgdx documents is accepted and preserved.

use crate::engine::{Family, Property, Tier, Verdict};
use crate::gen::{self, XEl, X};
use crate::run::{transform, Cfg, Outcome};
use crate::sxml::{self, Element, Node};
use proptest::collection::vec;
use proptest::prelude::*;
use serde::{Deserialize, Serialize};

pub struct C04;

#[derive(Clone, Debug, Serialize, Deserialize)]
pub struct Case {
    pub doc: String,
    /// grammar features used (keys for known-finding signatures and the evidence histogram)
    pub features: Vec<String>,
    pub rooted: bool,
}

// --------------------------------------------------------------------------- SVG 1.1 value grammars

/// number ::= sign? (digits ('.' digits?)? | '.' digits) exponent?
fn number(feat: bool) -> BoxedStrategy<(String, &'static str)> {
    let plain = prop_oneof![
        6 => (-200i32..=200).prop_map(|v| (format!("{v}"), "num.int")),
        4 => (-2000i32..=2000).prop_map(|v| (format!("{}", v as f64 / 8.0), "num.decimal")),
    ];
    if !feat {
        return plain.boxed();
    }
    prop_oneof![
        8 => plain,
        1 => (1i32..=200).prop_map(|v| (format!("+{v}"), "num.plus-sign")),
        1 => (1i32..=99).prop_map(|v| (format!(".{v}"), "num.leading-dot")),
        1 => (-50i32..=50).prop_map(|v| (format!("{v}."), "num.trailing-dot")),
        1 => (1i32..=20, -2i32..=2).prop_map(|(m, e)| (format!("{m}e{e}"), "num.exponent")),
        1 => (1i32..=20, 0i32..=2).prop_map(|(m, e)| (format!("{m}.5E+{e}"), "num.exponent")),
        // more decimals than the output keeps: the value rounds to a whole number (ending in 0 or not), or to 3 decimals
        1 => (1i32..=40, prop_oneof![Just("0001"), Just("0004"), Just("9996"), Just("12345"), Just("00049")], any::<bool>()).prop_map(|(v, f, tens)| {
            let whole = if tens { v * 10 } else { v };
            (if f == "9996" { format!("{}.{f}", whole - 1) } else { format!("{whole}.{f}") }, "num.many-decimals")
        }),
    ]
    .boxed()
}

fn pos_number() -> BoxedStrategy<(String, &'static str)> {
    prop_oneof![
        6 => (1i32..=200).prop_map(|v| (format!("{v}"), "num.int")),
        3 => (1i32..=2000).prop_map(|v| (format!("{}", v as f64 / 8.0), "num.decimal")),
        1 => (1i32..=99).prop_map(|v| (format!(".{v}"), "num.leading-dot")),
        1 => (1i32..=20, 0i32..=2).prop_map(|(m, e)| (format!("{m}e{e}"), "num.exponent")),
    ]
    .boxed()
}

fn length() -> BoxedStrategy<(String, &'static str)> {
    prop_oneof![
        5 => number(true),
        3 => (number(false), prop_oneof![Just("mm"), Just("cm"), Just("in"), Just("px"), Just("pt"), Just("pc"), Just("em"), Just("ex")]).prop_map(|((n, _), u)| (format!("{n}{u}"), "length.unit")),
        2 => (0i32..=150).prop_map(|v| (format!("{v}%"), "length.percent")),
        // a length is a *number* followed by a unit: signs, leading dots and exponents are legal there too
        1 => (number(true), prop_oneof![Just("mm"), Just("px"), Just("em"), Just("%"), Just("pt")]).prop_map(|((n, _), u)| (format!("{n}{u}"), "length.unit-with-number-forms")),
    ]
    .boxed()
}

/// comma-wsp variations between two numbers; a separator may be dropped before a sign or a leading dot
fn join_numbers(nums: &[String], style: u8) -> (String, Vec<&'static str>) {
    let mut s = String::new();
    let mut feats = vec![];
    for (i, n) in nums.iter().enumerate() {
        if i > 0 {
            let can_drop = n.starts_with('-') || n.starts_with('+') || (n.starts_with('.') && nums[i - 1].contains('.'));
            match style.wrapping_add(i as u8) % 6 {
                0 | 1 => s.push(' '),
                2 => s.push(','),
                3 => s.push_str(", "),
                4 => s.push_str(" ,\n  "),
                _ => {
                    if can_drop {
                        feats.push("list.sign-separated");
                    } else {
                        s.push(' ');
                    }
                }
            }
        }
        s.push_str(n);
    }
    (s, feats)
}

fn path_data() -> BoxedStrategy<(String, Vec<&'static str>)> {
    // segments: (command, parameter count); the first command is always a moveto
    let seg = prop_oneof![
        Just(('L', 2)), Just(('l', 2)), Just(('H', 1)), Just(('h', 1)), Just(('V', 1)), Just(('v', 1)), Just(('C', 6)), Just(('c', 6)), Just(('S', 4)), Just(('s', 4)), Just(('Q', 4)), Just(('q', 4)),
        Just(('T', 2)), Just(('t', 2)), Just(('A', 7)), Just(('a', 7)), Just(('Z', 0)), Just(('z', 0)), Just(('M', 2)), Just(('m', 2)),
    ];
    (any::<bool>(), vec((seg, vec(number(true), 14), 1usize..3, any::<u8>()), 0..6), vec(number(true), 2), any::<u8>())
        .prop_map(|(rel_start, segs, start, style)| {
            let mut feats: Vec<&'static str> = vec![];
            let mut d = String::new();
            d.push(if rel_start { 'm' } else { 'M' });
            let (s, f) = join_numbers(&[start[0].0.clone(), start[1].0.clone()], style);
            feats.extend(f);
            feats.push(start[0].1);
            if style % 3 == 0 {
                d.push(' ');
            }
            d.push_str(&s);
            let mut after_close = false;
            for ((cmd, n), nums, reps, st) in segs {
                let _ = after_close;
                if st % 4 == 0 {
                    d.push(' ');
                }
                d.push(cmd);
                after_close = n == 0;
                if n == 0 {
                    continue;
                }
                let reps = if n == 7 { 1 } else { reps };
                if reps > 1 {
                    feats.push("path.implicit-repeat");
                }
                let mut params: Vec<String> = Vec::new();
                for r in 0..reps {
                    for k in 0..n {
                        let (t, f) = &nums[(r * n + k) % nums.len()];
                        feats.push(f);
                        if n == 7 && (k == 3 || k == 4) {
                            params.push(if (st >> k) & 1 == 0 { "0".into() } else { "1".into() });
                        } else if n == 7 && k < 2 {
                            params.push(t.trim_start_matches(['-', '+']).to_string());
                        } else {
                            params.push(t.clone());
                        }
                    }
                }
                if n == 7 && st % 5 == 0 {
                    // compact arc flags: "a5 5 0 013 3"
                    feats.push("path.compact-arc-flags");
                    let x = params[5].trim_start_matches(['-', '+']).to_string();
                    d.push_str(&format!("{} {} {} {}{}{} {}", params[0], params[1], params[2], params[3], params[4], x, params[6]));
                } else {
                    if st % 3 == 1 {
                        d.push(' ');
                    }
                    let (s, f) = join_numbers(&params, st);
                    feats.extend(f);
                    d.push_str(&s);
                }
                feats.push(match cmd {
                    'C' | 'c' | 'S' | 's' | 'Q' | 'q' | 'T' | 't' => "path.curves",
                    'A' | 'a' => "path.arcs",
                    _ => "path.lines",
                });
            }
            (d, feats)
        })
        .boxed()
}

fn points() -> BoxedStrategy<(String, Vec<&'static str>)> {
    (vec(number(true), 2..9), any::<u8>())
        .prop_map(|(nums, style)| {
            let mut feats: Vec<&'static str> = nums.iter().map(|n| n.1).collect();
            let mut v: Vec<String> = nums.into_iter().map(|n| n.0).collect();
            if v.len() % 2 == 1 {
                v.pop();
            }
            let (s, f) = join_numbers(&v, style);
            feats.extend(f);
            (s, feats)
        })
        .boxed()
}

fn transform_list() -> BoxedStrategy<(String, Vec<&'static str>)> {
    let f = prop_oneof![Just(("translate", 1usize, 2usize)), Just(("scale", 1, 2)), Just(("rotate", 1, 3)), Just(("skewX", 1, 1)), Just(("skewY", 1, 1)), Just(("matrix", 6, 6))];
    vec((f, vec(number(true), 6), any::<u8>()), 1..4)
        .prop_map(|fs| {
            let mut s = String::new();
            let mut feats: Vec<&'static str> = vec![];
            for (i, ((name, lo, hi), nums, st)) in fs.iter().enumerate() {
                if i > 0 {
                    match st % 3 {
                        0 => s.push(' '),
                        1 => s.push_str(", "),
                        _ => feats.push("transform.no-separator"),
                    }
                }
                let n = if st % 2 == 0 { *lo } else { *hi };
                let n = if *name == "rotate" && n == 2 { 3 } else { n };
                let args: Vec<String> = nums[..n].iter().map(|x| x.0.clone()).collect();
                feats.extend(nums[..n].iter().map(|x| x.1));
                let (a, f) = join_numbers(&args, *st);
                feats.extend(f);
                // "translate" wsp* "(" : white space is allowed between the function name and the parenthesis
                let gap = if st % 11 == 0 {
                    feats.push("transform.space-before-paren");
                    if st % 2 == 0 { " " } else { "  " }
                } else {
                    ""
                };
                s.push_str(&format!("{name}{gap}({}{a}{})", if st % 5 == 0 { " " } else { "" }, if st % 7 == 0 { " " } else { "" }));
            }
            (s, feats)
        })
        .boxed()
}

const COLOURS: &[&str] = &["red", "#f00", "#FF8800", "rgb(10, 20, 30)", "rgb(10%,20%,30%)", "none", "currentColor", "url(#grad1)", "navy", "transparent"];

// --------------------------------------------------------------------------- document generator

#[derive(Clone, Debug)]
struct P {
    kind: u8,
    n: Vec<(String, &'static str)>,
    l: Vec<(String, &'static str)>,
    path: (String, Vec<&'static str>),
    pts: (String, Vec<&'static str>),
    xf: (String, Vec<&'static str>),
    f: u16,
    txt: String,
}

fn pk() -> impl Strategy<Value = P> {
    (0u8..24, vec(number(true), 6), vec(prop_oneof![3 => pos_number(), 2 => length()], 4), path_data(), points(), transform_list(), any::<u16>(), "[a-zA-Z0-9 .,;:!?&<>'\"()-]{0,14}")
        .prop_map(|(kind, n, l, path, pts, xf, f, txt)| P { kind, n, l, path, pts, xf, f, txt })
}

struct B {
    feats: Vec<String>,
    n_id: usize,
}

impl B {
    fn f(&mut self, s: &str) {
        if !self.feats.iter().any(|x| x == s) {
            self.feats.push(s.to_string());
        }
    }
    fn fs(&mut self, v: &[&'static str]) {
        for s in v {
            self.f(s);
        }
    }
}

fn presentation(e: &mut XEl, p: &P, b: &mut B) {
    if p.f & 1 != 0 {
        e.set("fill", COLOURS[(p.f >> 3) as usize % COLOURS.len()]);
    }
    if p.f & 2 != 0 {
        e.set("stroke", COLOURS[(p.f >> 5) as usize % COLOURS.len()]);
        e.set("stroke-width", p.l[3].0.clone());
    }
    if p.f & 4 != 0 {
        e.set("style", "opacity: .5; stroke-dasharray: 1,2 3");
    }
    if p.f & 0x100 != 0 {
        e.set("transform", p.xf.0.clone());
        b.f("attr.transform");
        b.fs(&p.xf.1);
    }
    if p.f & 0x200 != 0 {
        e.set("class", "one two");
    }
    if p.f & 0x400 != 0 {
        b.n_id += 1;
        e.set("id", format!("el{}", b.n_id));
    }
}

fn el(p: &P, b: &mut B, depth: usize, rest: &[P], used: &mut usize) -> XEl {
    let n = |i: usize, b: &mut B| -> String {
        b.f(p.n[i].1);
        p.n[i].0.clone()
    };
    let l = |i: usize, b: &mut B| -> String {
        b.f(p.l[i].1);
        p.l[i].0.clone()
    };
    let mut e = match p.kind {
        0..=2 => {
            let mut e = XEl::new("rect").a("x", n(0, b)).a("y", n(1, b)).a("width", l(0, b)).a("height", l(1, b));
            if p.f & 0x800 != 0 {
                e.set("rx", l(2, b));
                e.set("ry", l(2, b));
                b.f("rect.corner-radius");
            }
            e
        }
        3 => XEl::new("circle").a("cx", n(0, b)).a("cy", n(1, b)).a("r", l(0, b)),
        4 => XEl::new("ellipse").a("cx", n(0, b)).a("cy", n(1, b)).a("rx", l(0, b)).a("ry", l(1, b)),
        5 => {
            let mut e = XEl::new("line").a("x1", n(0, b)).a("y1", n(1, b)).a("x2", n(2, b)).a("y2", n(3, b));
            if p.f & 0x800 != 0 {
                // SVG: omitted coordinates default to 0
                e.attrs.retain(|(k, _)| k != "y1" && k != "x2");
                b.f("line.omitted-coordinates");
            }
            e
        }
        6 => {
            b.fs(&p.pts.1);
            b.f("attr.points");
            XEl::new(if p.f & 8 != 0 { "polyline" } else { "polygon" }).a("points", p.pts.0.clone())
        }
        7 | 8 => {
            b.fs(&p.path.1);
            b.f("attr.path");
            XEl::new("path").a("d", p.path.0.clone())
        }
        9 => {
            let mut t = XEl::new("text").a("x", n(0, b)).a("y", n(1, b));
            match (p.f >> 4) % 5 {
                // x / y of text content elements are lists of lengths
                1 => {
                    t.set("x", format!("{} {} {}", n(0, b), n(2, b), n(3, b)));
                    b.f("text.xy-list");
                }
                2 => {
                    t.set("y", format!("{},{}", n(1, b), n(4, b)));
                    b.f("text.xy-list");
                }
                3 => {
                    t.set("x", l(0, b));
                    t.set("y", l(1, b));
                    b.f("text.xy-length");
                }
                _ => {}
            }
            match p.f % 4 {
                0 => t.kids.push(X::Text(p.txt.clone())),
                1 => {
                    t.kids.push(X::Text(format!("{} ", p.txt)));
                    t.kids.push(X::El(XEl::new("tspan").a("dx", "1 2").a("dy", "-1").a("font-weight", "bold").text("bold part")));
                    t.kids.push(X::Text(" tail".into()));
                    b.f("text.tspan-mixed");
                }
                2 => {
                    t.kids.push(X::El(XEl::new("tspan").a("x", n(0, b)).a("dy", "1.2em").text(p.txt.clone())));
                    t.kids.push(X::El(XEl::new("tspan").a("x", n(0, b)).a("dy", "1.2em").text("second line")));
                    b.f("text.tspans");
                }
                _ => {
                    t.set("dx", "1 2 3");
                    t.set("rotate", "10 20");
                    t.set("text-anchor", "middle");
                    t.kids.push(X::Text(p.txt.clone()));
                    b.f("text.dx-list");
                }
            }
            t
        }
        10 => {
            let mut i = XEl::new("image").a("x", n(0, b)).a("y", n(1, b)).a("width", l(0, b)).a("height", l(1, b));
            if p.f & 8 != 0 {
                i.set("xlink:href", "pic.png");
                b.f("href.xlink");
            } else {
                i.set("href", "data:image/png;base64,AAAA");
            }
            i.set("preserveAspectRatio", "xMidYMid slice");
            i
        }
        11 => {
            let mut u = XEl::new("use");
            match p.f % 4 {
                0 => {
                    u.set("href", "#sym1");
                    b.f("use.symbol");
                }
                1 => {
                    u.set("xlink:href", "#shape1");
                    b.f("use.xlink-href");
                }
                2 => {
                    u.set("href", "other.svg#thing");
                    b.f("use.external-href");
                }
                _ if p.f & 0x80 != 0 => {
                    // the target's size is given in units: nothing is known about it in user units
                    u.set("href", ["#unitbox", "#unitcirc", "#unitell", "#unitline"][(p.f >> 9) as usize % 4]);
                    b.f("use.unit-sized-target");
                }
                _ if p.f & 0x40 != 0 => {
                    // ids are XML names: '.', '-', '_' and ':' are legal name characters
                    u.set("href", "#shape.v2-a");
                    b.f("use.dotted-id");
                }
                _ => {
                    u.set("href", "#circ1");
                    b.f("use.circle-target");
                }
            }
            u.set("x", n(0, b));
            u.set("y", n(1, b));
            if p.f & 0x20 != 0 {
                u.set("x", "10%");
                b.f("use.percent-position");
            }
            u
        }
        12 => XEl::new("title").text(p.txt.clone()),
        13 => XEl::new("desc").text(p.txt.clone()),
        14 | 15 if depth < 3 => {
            let k = (p.f as usize % 4).min(rest.len() - *used);
            let mut g = XEl::new(if p.kind == 14 { "g" } else { "a" });
            if p.kind == 15 {
                if p.f & 8 != 0 {
                    g.set("xlink:href", "http://example.com/?a=1&b=2");
                    b.f("href.xlink");
                } else {
                    g.set("href", "#el1");
                }
                g.set("target", "_blank");
            }
            for _ in 0..k {
                if *used >= rest.len() {
                    break;
                }
                let q = &rest[*used];
                *used += 1;
                let kid = el(q, b, depth + 1, rest, used);
                g.kids.push(X::El(kid));
            }
            g
        }
        16 => {
            let mut f = XEl::new("foreignObject").a("x", n(0, b)).a("y", n(1, b)).a("width", l(0, b)).a("height", l(1, b));
            f.kids.push(X::El(XEl::new("div").a("xmlns", "http://www.w3.org/1999/xhtml").a("style", "color: red").text(p.txt.clone())));
            b.f("foreignObject");
            f
        }
        17 => {
            let mut s = XEl::new("style").a("type", "text/css");
            s.kids.push(X::Raw(format!("<![CDATA[ .one {{ fill: red; }} rect > .two {{ stroke: {}; }} ]]>", COLOURS[p.f as usize % 3])));
            b.f("style.cdata");
            s
        }
        18 => {
            let mut s = XEl::new("svg").a("x", n(0, b)).a("y", n(1, b)).a("width", l(0, b)).a("height", l(1, b)).a("viewBox", "0 0 10 10");
            s.kids.push(X::El(XEl::new("rect").a("width", "10").a("height", "10")));
            b.f("nested-svg");
            s
        }
        19 => {
            let mut s = XEl::new("switch");
            s.kids.push(X::El(XEl::new("text").a("systemLanguage", "en").a("x", n(0, b)).a("y", n(1, b)).text("hello")));
            s.kids.push(X::El(XEl::new("text").a("x", n(0, b)).a("y", n(1, b)).text("fallback")));
            b.f("switch");
            s
        }
        20 => {
            let mut c = XEl::new("circle").a("cx", n(0, b)).a("cy", n(1, b)).a("r", l(0, b));
            let mut an = XEl::new("animate").a("attributeName", "r").a("from", "1").a("to", "5").a("dur", "2s").a("repeatCount", "indefinite");
            if p.f & 0x10 != 0 {
                // timing attributes of SVG animation elements
                an.set("begin", "0s");
                an.set("end", "5s");
                b.f("animate.begin-end");
            }
            c.kids.push(X::El(an));
            b.f("animate-child");
            c
        }
        21 if p.f & 0x10 != 0 => {
            // the keyword none is a legal value of every one of these properties
            b.f("ref.none");
            XEl::new("rect").a("width", l(0, b)).a("height", l(1, b)).a("filter", "none").a("clip-path", "none").a("mask", "none").a("marker-end", "none")
        }
        21 => XEl::new("rect").a("width", l(0, b)).a("height", l(1, b)).a("filter", "url(#filt1)").a("clip-path", "url(#clip1)").a("mask", "url(#mask1)").a("marker-end", "url(#mark1)"),
        22 => {
            b.f("text.textPath");
            XEl::new("text").kid(XEl::new("textPath").a("href", "#pathdef").a("startOffset", "10%").text(p.txt.clone()))
        }
        _ => XEl::new("rect").a("x", n(0, b)).a("y", n(1, b)).a("width", "100%").a("height", "50%"),
    };
    // a shape written with separate tags and only white space between them (pretty-printed output of other tools)
    if matches!(e.name.as_str(), "rect" | "circle" | "ellipse" | "line" | "polyline" | "polygon" | "path") && e.kids.is_empty() && (p.f >> 9) & 7 == 5 {
        e.kids.push(X::Raw("\n    ".into()));
        b.f("shape.whitespace-content");
    }
    // coordinates may be left out (SVG: as if 0) or be given as percentages, one axis at a time
    if matches!(e.name.as_str(), "rect" | "circle" | "ellipse" | "image") && p.kind != 21 {
        let (ax, ay) = if matches!(e.name.as_str(), "circle" | "ellipse") { ("cx", "cy") } else { ("x", "y") };
        match (p.f >> 12) & 7 {
            1 if e.get(ay).is_some() => {
                e.attrs.retain(|(k, _)| k != ay);
                b.f("geom.omitted-coordinate");
            }
            2 if e.get(ax).is_some() => {
                e.attrs.retain(|(k, _)| k != ax);
                b.f("geom.omitted-coordinate");
            }
            3 if e.get(ay).is_some() => {
                e.set(ay, "50%");
                b.f("geom.percent-coordinate");
            }
            4 if e.get(ax).is_some() => {
                e.set(ax, "25%");
                b.f("geom.percent-coordinate");
            }
            _ => {}
        }
    }
    presentation(&mut e, p, b);
    e
}

fn defs_block() -> XEl {
    XEl::new("defs")
        .kid(XEl::new("linearGradient").a("id", "grad1").a("x1", "0%").a("y1", "0%").a("x2", "100%").a("y2", "0%").a("gradientUnits", "objectBoundingBox").kid(XEl::new("stop").a("offset", "5%").a("stop-color", "gold").a("stop-opacity", ".5")).kid(XEl::new("stop").a("offset", "95%").a("stop-color", "#f00")))
        .kid(XEl::new("radialGradient").a("id", "grad2").a("cx", "50%").a("cy", "50%").a("r", "50%").a("fx", "30%").kid(XEl::new("stop").a("offset", "0").a("stop-color", "white")))
        .kid(XEl::new("marker").a("id", "mark1").a("viewBox", "0 0 10 10").a("refX", "5").a("refY", "5").a("markerWidth", "6").a("markerHeight", "6").a("orient", "auto").kid(XEl::new("path").a("d", "M 0 0 L 10 5 L 0 10 z")))
        .kid(
            XEl::new("filter")
                .a("id", "filt1")
                .a("x", "-10%")
                .a("y", "-10%")
                .a("width", "120%")
                .a("height", "120%")
                .kid(XEl::new("feGaussianBlur").a("in", "SourceAlpha").a("stdDeviation", "2 3").a("result", "blur"))
                .kid(XEl::new("feOffset").a("in", "blur").a("dx", "4").a("dy", "4").a("result", "off"))
                .kid(XEl::new("feMerge").kid(XEl::new("feMergeNode").a("in", "off")).kid(XEl::new("feMergeNode").a("in", "SourceGraphic"))),
        )
        .kid(XEl::new("clipPath").a("id", "clip1").a("clipPathUnits", "userSpaceOnUse").kid(XEl::new("circle").a("cx", "10").a("cy", "10").a("r", "40")))
        .kid(XEl::new("mask").a("id", "mask1").kid(XEl::new("rect").a("width", "100%").a("height", "100%").a("fill", "white")))
        .kid(XEl::new("symbol").a("id", "sym1").a("viewBox", "0 0 10 10").kid(XEl::new("rect").a("width", "10").a("height", "10")))
        .kid(XEl::new("rect").a("id", "shape1").a("width", "8").a("height", "4"))
        .kid(XEl::new("rect").a("id", "shape.v2-a").a("width", "3").a("height", "3"))
        .kid(XEl::new("rect").a("id", "unitbox").a("width", "2cm").a("height", "1cm"))
        .kid(XEl::new("circle").a("id", "unitcirc").a("r", "2em"))
        .kid(XEl::new("ellipse").a("id", "unitell").a("rx", "1cm").a("ry", "10%"))
        .kid(XEl::new("line").a("id", "unitline").a("x1", "0").a("y1", "0").a("x2", "50%").a("y2", "1cm"))
        .kid(XEl::new("circle").a("id", "circ1").a("cx", "5").a("cy", "5").a("r", "5"))
        .kid(XEl::new("path").a("id", "pathdef").a("d", "M0 0 C 10 10 20 10 30 0"))
        .kid(XEl::new("pattern").a("id", "pat1").a("width", "4").a("height", "4").a("patternUnits", "userSpaceOnUse").kid(XEl::new("circle").a("cx", "2").a("cy", "2").a("r", "1")))
}

fn fam_docs(_t: Tier) -> BoxedStrategy<Case> {
    (vec(pk(), 1..10), prop::bool::weighted(0.85), any::<u8>())
        .prop_map(|(picks, rooted, root_attrs)| {
            let mut b = B { feats: vec![], n_id: 0 };
            let mut kids: Vec<X> = vec![X::El(defs_block())];
            let mut used = 0usize;
            while used < picks.len() {
                let p = &picks[used];
                used += 1;
                let e = el(p, &mut b, 0, &picks, &mut used);
                kids.push(X::El(e));
            }
            // a fragment with an <svg> element among its siblings is read as a rooted document: keep nested <svg> to rooted cases
            let rooted = rooted || b.feats.iter().any(|f| f == "nested-svg");
            let uses_xlink = kids.iter().any(|k| matches!(k, X::El(e) if e.to_xml().contains("xlink:")));
            let doc = if rooted {
                let mut root = XEl::new("svg");
                if uses_xlink {
                    root.set("xmlns:xlink", "http://www.w3.org/1999/xlink");
                }
                if root_attrs & 1 != 0 {
                    root.set("width", "200");
                    root.set("height", "100");
                }
                if root_attrs & 2 != 0 {
                    root.set("viewBox", "0 0 200 100");
                }
                if root_attrs & 4 != 0 {
                    root.set("preserveAspectRatio", "xMinYMin meet");
                }
                if root_attrs & 32 != 0 && root_attrs & 3 == 0 {
                    // one dimension only, in any spelling of a length
                    root.set(if root_attrs & 64 != 0 { "width" } else { "height" }, ["1e2", "+5cm", "1.5e1em", ".5in", "200"][(root_attrs >> 5) as usize % 5]);
                    b.f("root.single-dimension");
                }
                if root_attrs & 8 != 0 {
                    root.set("class", "doc one");
                    b.f("root.attrs");
                }
                if root_attrs & 16 != 0 {
                    root.set("id", "root1");
                    root.set("style", "background: white");
                    root.set("data-name", "x");
                    b.f("root.attrs");
                }
                root.kids = kids;
                root.to_xml()
            } else {
                kids.iter().map(|k| match k { X::El(e) => e.to_xml(), _ => String::new() }).collect::<Vec<_>>().join("\n")
            };
            Case { doc, features: b.feats, rooted }
        })
        .boxed()
}

// --------------------------------------------------------------------------- oracle

const REWRITTEN: &[&str] = &["x", "y", "cx", "cy", "r", "rx", "ry", "x1", "y1", "x2", "y2", "width", "height"];

fn plain_number(s: &str) -> Option<f64> {
    let t = s.trim();
    if t.is_empty() || !t.chars().all(|c| c.is_ascii_digit() || matches!(c, '.' | '-' | '+' | 'e' | 'E')) {
        return None;
    }
    t.parse::<f64>().ok()
}

fn chars_of(e: &Element) -> String {
    e.own_text().split_whitespace().collect::<Vec<_>>().join(" ")
}

/// Compare input element `a` with output element `b`; returns a (clause, detail) on mismatch.
fn same(a: &Element, b: &Element, is_root: bool, path: &str) -> Result<(), (String, String)> {
    // tag failures on elements whose grammar feature is known from the element itself
    let tag = match a.name.as_str() {
        "use" => match (a.attr("href"), a.attr("xlink:href")) {
            (Some("#circ1"), _) => Some("use.circle-target"),
            (Some("#shape.v2-a"), _) => Some("use.dotted-id"),
            (Some("#unitbox" | "#unitcirc" | "#unitell" | "#unitline"), _) => Some("use.unit-sized-target"),
            (Some("#sym1"), _) => Some("use.symbol"),
            (Some(h), _) if !h.starts_with('#') => Some("use.external-href"),
            (None, Some(_)) => Some("use.xlink-href"),
            _ => None,
        },
        "line" if !(a.has_attr("x1") && a.has_attr("y1") && a.has_attr("x2") && a.has_attr("y2")) => Some("line.omitted-coordinates"),
        _ => None,
    };
    match (same_inner(a, b, is_root, path), tag) {
        (Err((c, d)), Some(t)) if !c.contains('|') => Err((format!("{c}|{t}"), d)),
        (r, _) => r,
    }
}

fn same_inner(a: &Element, b: &Element, is_root: bool, path: &str) -> Result<(), (String, String)> {
    if a.name != b.name {
        return Err(("element-name".into(), format!("{path}: <{}> became <{}>", a.name, b.name)));
    }
    for (k, v) in &a.attrs {
        match b.attr(k) {
            None => return Err((format!("attribute-dropped:{}", if REWRITTEN.contains(&k.as_str()) { "geometry" } else { k.split(':').next().unwrap_or(k) }), format!("{path}/<{}>: attribute {k}=\"{v}\" missing in output {:?}", a.name, b.attrs))),
            Some(w) if w == v => {}
            Some(w) => {
                let numeric_ok = REWRITTEN.contains(&k.as_str()) && matches!((plain_number(v), plain_number(w)), (Some(x), Some(y)) if (x - y).abs() <= 0.0006 + 1e-6 * x.abs());
                let class_ok = k == "class" && v.split_whitespace().collect::<Vec<_>>() == w.split_whitespace().collect::<Vec<_>>();
                if !numeric_ok && !class_ok {
                    return Err((format!("attribute-value-changed:{}", if REWRITTEN.contains(&k.as_str()) { "geometry" } else { k.as_str() }), format!("{path}/<{}>: {k}=\"{v}\" became \"{w}\"", a.name)));
                }
            }
        }
    }
    for (k, w) in &b.attrs {
        if a.has_attr(k) {
            continue;
        }
        let root_ok = is_root && matches!(k.as_str(), "version" | "xmlns" | "width" | "height" | "viewBox");
        // a coordinate the author omitted (SVG default 0) may be written out explicitly
        let default_ok = matches!(k.as_str(), "x" | "y" | "cx" | "cy" | "x1" | "y1" | "x2" | "y2") && plain_number(w) == Some(0.0);
        if !root_ok && !default_ok {
            return Err((format!("attribute-added:{}", if REWRITTEN.contains(&k.as_str()) { "geometry" } else { k.as_str() }), format!("{path}/<{}>: output has extra {k}=\"{w}\"", a.name)));
        }
    }
    // children: element sequence must match; the documented reinterpretation: an element whose content is
    // character data only may be followed by a generated <text class="d-text"> sibling - handled by the caller
    let ak: Vec<&Element> = a.child_elements().collect();
    let bk: Vec<&Element> = b.child_elements().collect();
    match_children(&ak, &bk, a, b, path)
}

fn is_generated_text(e: &Element) -> bool {
    e.name == "text" && e.has_class("d-text")
}

fn match_children(ak: &[&Element], bk: &[&Element], a: &Element, b: &Element, path: &str) -> Result<(), (String, String)> {
    let mut j = 0;
    for (i, x) in ak.iter().enumerate() {
        let p = format!("{path}/{}[{i}]", a.name);
        if j >= bk.len() {
            return Err(("element-missing".into(), format!("{p}: <{}> missing in output", x.name)));
        }
        // (for <text> even whitespace-only content is character data)
        let char_only = x.child_elements().next().is_none() && if x.name == "text" { !x.own_text().is_empty() } else { !x.own_text().trim().is_empty() };
        let shape = matches!(x.name.as_str(), "rect" | "circle" | "ellipse" | "line" | "polyline" | "polygon" | "path" | "image" | "use");
        if char_only && (shape || x.name == "text") {
            // shorthand for the text attribute: re-emitted as (element +) generated text with the same characters
            let y = bk[j];
            if x.name == "text" {
                if y.name != "text" {
                    return Err(("element-name".into(), format!("{p}: <text> became <{}>", y.name)));
                }
                let mut stripped = (*y).clone();
                // the generated text carries the alignment classes (d-text, d-text-*) in addition to the author's
                for (k, v) in stripped.attrs.iter_mut() {
                    if k == "class" {
                        *v = v.split_whitespace().filter(|c| !c.starts_with("d-text")).collect::<Vec<_>>().join(" ");
                    }
                }
                stripped.attrs.retain(|(k, v)| !(k == "class" && v.is_empty()));
                let mut xx = (*x).clone();
                xx.children.clear();
                stripped.children.clear();
                same(&xx, &stripped, false, &p)?;
                if chars_of(y) != chars_of(x) {
                    return Err(("character-data-changed:text".into(), format!("{p}: {:?} became {:?}", chars_of(x), chars_of(y))));
                }
                j += 1;
            } else {
                let mut xx = (*x).clone();
                xx.children.clear();
                same(&xx, y, false, &p)?;
                j += 1;
                match bk.get(j) {
                    Some(t) if is_generated_text(t) && chars_of(t) == chars_of(x) => j += 1,
                    other => return Err(("character-data-changed:shape-content".into(), format!("{p}: content {:?} not re-emitted as generated text (next output element: {:?})", chars_of(x), other.map(|e| (&e.name, chars_of(e)))))),
                }
            }
            continue;
        }
        same(x, bk[j], false, &p)?;
        if chars_of(x) != chars_of(bk[j]) {
            return Err((format!("character-data-changed:{}", x.name), format!("{p}: {:?} became {:?}", chars_of(x), chars_of(bk[j]))));
        }
        j += 1;
    }
    if j < bk.len() {
        // injected style/defs are off in this check; anything extra is unexpected
        return Err(("element-added".into(), format!("{path}/<{}>: output has extra <{}>", b.name, bk[j].name)));
    }
    Ok(())
}

impl Property for C04 {
    type Case = Case;
    fn id(&self) -> &'static str {
        "C04"
    }
    fn rule(&self) -> String {
        "cases = non-namespaced <svg> documents and fragments (auto-styles off) of 1-9 elements, nested up to 3 deep, from the SVG 1.1 vocabulary: rect (with rx/ry), circle, ellipse, line (with omitted coordinates), polyline, polygon, path, text with character data / tspans / mixed content / dx lists / textPath, image, use (symbol, shape, circle, xlink:href, external href), title, desc, g, a, foreignObject with XHTML, style with CDATA, nested svg, switch, animate children, references to a defs block (gradients with stops, marker, filter with feGaussianBlur / feOffset / feMerge, clipPath, mask, symbol, pattern); \
         values come from grammar-faithful generators transcribed from the SVG 1.1 BNF: numbers (sign, leading / trailing dot, exponents), lengths with all units and %, coordinate lists with every comma-wsp form incl. sign- and dot-separated numbers, path data over all 20 commands with implicit repetition and compact arc flags, transform lists over all six functions with optional separators, colours, url(#id) paints, style strings; each case is labelled with the grammar features it uses. \
         Oracle: the transform is Ok and the output element tree equals the input's - names, positions, attribute sets, values (geometry attributes numerically within 0.0006 when plain numbers, everything else as strings), character data; root may gain version/xmlns/width/height/viewBox, an omitted coordinate may be written as 0; character-only content of a shape or <text> may be re-emitted as generated text with the same characters. \
         Non-trivial = at least one grammar feature beyond integers and plain decimals; distinct by hash of the case."
            .into()
    }
    fn assumptions(&self) -> Vec<String> {
        vec!["comments, PIs and insignificant whitespace are not compared (svgdx mode drops PIs); class lists are compared as token sequences".into()]
    }
    fn families(&self, tier: Tier) -> Vec<Family<Case>> {
        vec![Family::random("svg11-documents", tier.n(40_000, 250_000), fam_docs)]
    }
    fn judge(&self, c: &Case, _strict: bool) -> Verdict {
        let labels: Vec<String> = c.features.clone();
        let nontrivial = c.features.iter().any(|f| !matches!(f.as_str(), "num.int" | "num.decimal"));
        // narrow signature component: the rarest-looking feature present
        let featkey = |clause: &str| -> String {
            if let Some((c0, tag)) = clause.split('@').next().unwrap_or(clause).split_once('|') {
                return format!("c04:{c0}:{tag}");
            }
            // prefer a feature that belongs to the element named in the clause's detail
            let el_pref: &[(&str, &[&str])] = &[
                ("<line>", &["line.omitted-coordinates"]),
                ("<use>", &["use.unit-sized-target", "use.percent-position", "use.dotted-id", "use.external-href", "use.xlink-href", "use.circle-target", "use.symbol"]),
                ("<text>", &["text.xy-list", "text.xy-length"]),
                ("<svg>", &["root.attrs"]),
                ("<image>", &["href.xlink"]),
                ("<a>", &["href.xlink"]),
            ];
            for (el, feats) in el_pref {
                if clause.contains(el) {
                    if let Some(f) = feats.iter().find(|o| c.features.iter().any(|f| f == *o)) {
                        return format!("c04:{}:{f}", clause.split('@').next().unwrap_or(clause));
                    }
                }
            }
            let clause = clause.split('@').next().unwrap_or(clause);
            const ORDER: &[&str] = &["root.single-dimension", "shape.whitespace-content", "animate.begin-end", "use.unit-sized-target", "use.percent-position", "geom.omitted-coordinate", "geom.percent-coordinate", "ref.none", "use.dotted-id", "text.xy-list", "text.xy-length", "transform.space-before-paren", "root.attrs", "use.external-href", "use.xlink-href", "use.circle-target", "use.symbol", "href.xlink", "path.compact-arc-flags", "list.sign-separated", "transform.no-separator", "num.many-decimals", "num.exponent", "num.plus-sign", "num.leading-dot", "num.trailing-dot", "text.textPath", "text.tspan-mixed", "text.tspans", "text.dx-list", "foreignObject", "nested-svg", "switch", "animate-child", "style.cdata", "line.omitted-coordinates", "rect.corner-radius", "length.unit-with-number-forms", "length.unit", "length.percent", "path.arcs", "path.curves", "attr.path", "attr.points", "attr.transform"];
            let f = ORDER.iter().find(|o| c.features.iter().any(|f| f == *o)).copied().unwrap_or("plain");
            format!("c04:{clause}:{f}")
        };
        let out = match transform(&c.doc, &Cfg::plain()) {
            Outcome::Ok(o) => o,
            Outcome::Err(k, m) => {
                // which construct made it fail: name the offending element from the error text
                let culprit = ["use", "path", "polyline", "polygon", "image", "text", "rect", "circle", "ellipse", "line", "svg", "foreignObject", "g "].iter().find(|n| m.contains(&format!(": {n}")) || m.contains(&format!("<{n}"))).copied().unwrap_or("?");
                return Verdict::fail(featkey(&format!("rejected:{}@<{}>", culprit.trim(), culprit.trim())), format!("standard SVG content made the transform fail: [{k}] {}\n--- document ---\n{}", crate::run::trunc(&m, 800), c.doc), labels, 1);
            }
            Outcome::Panic(l, m) => return Verdict::fail(format!("c04:panic:{l}"), m, labels, 1),
        };
        let (ti, to) = match (sxml::parse_tree(&c.doc), sxml::parse_tree(&out)) {
            (Ok(a), Ok(b)) => (a, b),
            (Err(e), _) => return Verdict::skip(format!("generator-illformed:{}", e.msg), labels, 1),
            (_, Err(e)) => return Verdict::fail("c04:output-illformed", format!("{e}\n{out}"), labels, 1),
        };
        let res = if c.rooted {
            match (sxml::root_svg(&ti), sxml::root_svg(&to)) {
                (Some(a), Some(b)) => same(a, b, true, ""),
                _ => Err(("no-root".into(), "root <svg> missing".into())),
            }
        } else {
            let ak: Vec<&Element> = ti.child_elements().collect();
            let bk: Vec<&Element> = to.child_elements().collect();
            match_children(&ak, &bk, &ti, &to, "")
        };
        match res {
            Ok(()) => Verdict::pass(nontrivial, labels, 1),
            Err((clause, detail)) => {
                let el = detail.split('<').nth(1).and_then(|r| r.split('>').next()).unwrap_or("");
                Verdict::fail(featkey(&format!("{clause}@<{el}>")), format!("{detail}\n--- document ---\n{}\n--- output ---\n{}", c.doc, crate::run::trunc(&out, 4000)), labels, 1)
            }
        }
    }
}

#[allow(dead_code)]
fn _u() {
    let _ = (gen::LOCS, Node::Text(String::new()));
}
