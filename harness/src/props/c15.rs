//! C15 Variable scoping is lexical and unaffected by evaluation order.

use crate::engine::{Family, Property, Tier, Verdict};
use crate::gen::{XEl, X};
use crate::run::{transform, Cfg, Outcome};
use crate::sxml;
use proptest::collection::vec;
use proptest::prelude::*;
use serde::{Deserialize, Serialize};
use std::collections::HashMap;

pub struct C15;

pub const NAMES: [&str; 7] = ["a", "b", "n", "fill", "width", "label", "stroke-width"];

/// a reference to the name: `$name`, or `${name}` where the name is not a plain identifier
fn dollar(n: usize) -> String {
    if NAMES[n].contains('-') {
        format!("${{{}}}", NAMES[n])
    } else {
        format!("${}", NAMES[n])
    }
}

#[derive(Clone, Debug, Serialize, Deserialize)]
pub enum Val {
    /// literal token
    Lit(String),
    /// value of another variable: "$name"
    Ref(usize),
    /// "${name}x" - concatenation
    Cat(usize, String),
    /// "{{$n + k}}" - numeric self/other increment (n holds a number)
    Inc(i32),
}

#[derive(Clone, Debug, Serialize, Deserialize)]
pub enum Stmt {
    Var(Vec<(usize, Val)>),
    Probe,
    G(Vec<(usize, String)>, Vec<Stmt>),
    Reuse(Vec<(usize, Val)>),
    /// a reuse of a template that is defined only at the end of the document: its first attempt fails, it is
    /// instantiated when it is tried again
    ReuseLate(Vec<(usize, Val)>),
    /// `<defaults><_ name="value"/></defaults>`: an attribute every later *element* gets - which assigns nothing
    Dflt(usize, String),
    /// a probe with an id in the document body (not in <specs>): rendered where it stands, and the target of `ReuseBody`
    Body,
    /// a reuse of that element: its references are resolved where the instance is made, reuse attributes shadowing
    ReuseBody(Vec<(usize, Val)>),
    Loop(u8, Vec<Stmt>),
    If(bool, Vec<Stmt>),
    /// a shape holding a forward reference (forces re-evaluation of whatever encloses it)
    Fwd,
    /// an unrelated, perfectly fine element
    Plain,
}

#[derive(Clone, Debug, Serialize, Deserialize)]
pub struct Case {
    pub prog: Vec<Stmt>,
}

/// A `<g>` whose first attribute value is one of these also carries `data-w="{{#late~w}}"`: a forward reference in the
/// group's *own* attribute, so the group itself (not something inside it) is what fails once and is tried again.
fn g_fwd(attrs: &[(usize, String)]) -> bool {
    attrs.first().map(|(_, v)| matches!(v.as_str(), "x1" | "zed" | "12")).unwrap_or(false)
}

/// A `<g>` whose first attribute value is one of these also carries `data-v="$name"`, name being that first attribute's
/// own name: the group's attributes shadow for descendants only, so the reference reads the *outer* value.
fn g_self(attrs: &[(usize, String)]) -> Option<usize> {
    attrs.first().and_then(|(k, v)| if matches!(v.as_str(), "blue" | "green" | "x1") { Some(*k) } else { None })
}

// (the empty string is a value like any other: an empty binding still shadows an outer one)
const LITS: [&str; 9] = ["red", "blue", "7", "12", "x1", "zed", "0", "green", ""];

fn val() -> impl Strategy<Value = Val> {
    prop_oneof![
        4 => (0..LITS.len()).prop_map(|i| Val::Lit(LITS[i].to_string())),
        2 => (0..NAMES.len()).prop_map(Val::Ref),
        1 => (0..NAMES.len(), 0..LITS.len()).prop_map(|(n, l)| Val::Cat(n, LITS[l].to_string())),
        2 => (1..5i32).prop_map(Val::Inc),
    ]
}

fn stmt(depth: u32) -> BoxedStrategy<Stmt> {
    let leaf = prop_oneof![
        4 => vec((0..NAMES.len(), val()), 1..4).prop_map(|v| {
            let mut seen = std::collections::HashSet::new();
            Stmt::Var(v.into_iter().filter(|(k, _)| seen.insert(*k)).collect())
        }),
        4 => Just(Stmt::Probe),
        2 => Just(Stmt::Fwd),
        1 => Just(Stmt::Plain),
        2 => vec((0..NAMES.len(), val()), 0..3).prop_map(|v| {
            let mut seen = std::collections::HashSet::new();
            Stmt::Reuse(v.into_iter().filter(|(k, _)| seen.insert(*k)).collect())
        }),
        1 => vec((0..NAMES.len(), val()), 1..3).prop_map(|v| {
            let mut seen = std::collections::HashSet::new();
            Stmt::ReuseLate(v.into_iter().filter(|(k, _)| seen.insert(*k)).collect())
        }),
    ];
    leaf.prop_recursive(depth, 40, 5, |inner| {
        prop_oneof![
            // (an empty body gives a self-closing <g .../>)
            3 => (vec((0..NAMES.len(), 0..LITS.len()), 0..3), vec(inner.clone(), 0..5)).prop_map(|(a, b)| {
                let mut seen = std::collections::HashSet::new();
                Stmt::G(a.into_iter().filter(|(k, _)| seen.insert(*k)).map(|(k, l)| (k, LITS[l].to_string())).collect(), b)
            }),
            2 => (1u8..4, vec(inner.clone(), 1..4)).prop_map(|(n, b)| Stmt::Loop(n, b)),
            1 => (any::<bool>(), vec(inner.clone(), 1..4)).prop_map(|(c, b)| Stmt::If(c, b)),
        ]
    })
    .boxed()
}

fn sanitize(prog: &mut Vec<Stmt>, defined: &mut std::collections::HashSet<usize>) {
    const NUMS: [&str; 3] = ["7", "12", "0"];
    for s in prog.iter_mut() {
        match s {
            Stmt::Var(_) | Stmt::Reuse(_) | Stmt::ReuseLate(_) | Stmt::ReuseBody(_) => {
                let is_var = matches!(s, Stmt::Var(_));
                let is_body_reuse = matches!(s, Stmt::ReuseBody(_));
                let asg = match s {
                    Stmt::Var(a) | Stmt::Reuse(a) | Stmt::ReuseLate(a) | Stmt::ReuseBody(a) => a,
                    _ => unreachable!(),
                };
                for (k, v) in asg.iter_mut() {
                    if *k == 2 {
                        // n is the numeric variable: literals or increments only
                        if let Val::Lit(l) = v {
                            if l.parse::<f64>().is_err() {
                                *v = Val::Lit(NUMS[l.len() % 3].to_string());
                            }
                        } else if !matches!(v, Val::Inc(_)) {
                            *v = Val::Inc(1);
                        }
                        // (an increment needs a number to start from)
                        if matches!(v, Val::Inc(_)) && !defined.contains(&2) {
                            *v = Val::Lit("7".into());
                        }
                    } else if matches!(v, Val::Inc(_)) {
                        *v = Val::Ref(2);
                    }
                    // only assign from names that are defined at this point
                    if let Val::Ref(n) | Val::Cat(n, _) = v {
                        if !defined.contains(n) {
                            *v = Val::Lit(LITS[(*n + *k) % LITS.len()].to_string());
                        }
                    }
                }
                if is_var {
                    for (k, _) in asg.iter() {
                        defined.insert(*k);
                    }
                } else if !is_body_reuse && !defined.contains(&2) && !asg.iter().any(|(k, _)| *k == 2) {
                    // the template reads $n: where the program has not defined it, the instance binds it
                    asg.push((2, Val::Lit("7".into())));
                }
            }
            Stmt::G(attrs, body) => {
                for (k, v) in attrs.iter_mut() {
                    if *k == 2 && v.parse::<f64>().is_err() {
                        *v = NUMS[v.len() % 3].to_string();
                    }
                }
                let mut inner = defined.clone();
                inner.extend(attrs.iter().map(|(k, _)| *k));
                sanitize(body, &mut inner);
            }
            // transparent; a loop body may run zero times only for count 0 (not generated), an if body may not run at all
            Stmt::Loop(_, b) => sanitize(b, defined),
            Stmt::If(c, b) => {
                if *c {
                    sanitize(b, defined)
                } else {
                    let mut inner = defined.clone();
                    sanitize(b, &mut inner)
                }
            }
            _ => {}
        }
    }
}

fn fam_programs(_t: Tier) -> BoxedStrategy<Case> {
    (vec(stmt(4), 2..9), 0u8..4).prop_map(|(mut prog, init)| {
        let mut defined = std::collections::HashSet::new();
        // n starts out numeric in three programs out of four (in the others the document's first <var> can be anywhere,
        // also inside a group); every program ends with a probe
        if init != 0 {
            defined.insert(2usize);
        }
        sanitize(&mut prog, &mut defined);
        if init != 0 {
            prog.insert(0, Stmt::Var(vec![(2, Val::Lit("1".into()))]));
        }
        // one program in three holds a probe with an id in the document body, and reuses it where it reused the template
        if init == 2 {
            fn retarget(p: &mut [Stmt], k: &mut usize) {
                for s in p.iter_mut() {
                    match s {
                        Stmt::Reuse(a) => {
                            *k += 1;
                            if *k % 3 != 0 {
                                *s = Stmt::ReuseBody(std::mem::take(a));
                            }
                        }
                        Stmt::G(_, b) | Stmt::Loop(_, b) | Stmt::If(_, b) => retarget(b, k),
                        _ => {}
                    }
                }
            }
            retarget(&mut prog, &mut 0);
            prog.insert(1, Stmt::Body);
        }
        // one program in four declares a wildcard element default named like a variable (and, a default reaching a <reuse>
        // being a binding by design, has its reuses replaced by probes)
        if init == 3 {
            fn unreuse(p: &mut [Stmt]) {
                for s in p.iter_mut() {
                    match s {
                        Stmt::Reuse(_) | Stmt::ReuseLate(_) => *s = Stmt::Probe,
                        Stmt::G(_, b) | Stmt::Loop(_, b) | Stmt::If(_, b) => unreuse(b),
                        _ => {}
                    }
                }
            }
            unreuse(&mut prog);
            // (a, b or fill: names that are not geometry attributes of the shapes in the document)
            let k = [0usize, 1, 3][prog.len() % 3];
            prog.insert(1, Stmt::Dflt(k, LITS[prog.len() % 8].to_string()));
        }
        prog.push(Stmt::Probe);
        Case { prog }
    }).boxed()
}

// --------------------------------------------------------------------------- rendering

fn val_txt(v: &Val) -> String {
    match v {
        Val::Lit(s) => s.clone(),
        Val::Ref(n) => dollar(*n),
        Val::Cat(n, s) => format!("${{{}}}{s}", NAMES[*n]),
        Val::Inc(k) => format!("{{{{$n + {k}}}}}"),
    }
}

fn probe_text() -> String {
    format!("p:{}", (0..NAMES.len()).map(dollar).collect::<Vec<_>>().join("|"))
}

fn render(prog: &[Stmt], out: &mut Vec<X>) {
    for s in prog {
        match s {
            Stmt::Var(asg) => {
                let mut e = XEl::new("var");
                for (k, v) in asg {
                    e.set(NAMES[*k], val_txt(v));
                }
                out.push(X::El(e));
            }
            Stmt::Probe => out.push(X::El(XEl::new("text").a("data-q", "1").a("xy", "0 0").a("text", probe_text()))),
            Stmt::G(attrs, body) => {
                let mut g = XEl::new("g");
                for (k, v) in attrs {
                    g.set(NAMES[*k], v.clone());
                }
                if let Some(k) = g_self(attrs) {
                    g.set("data-v", dollar(k));
                }
                if g_fwd(attrs) {
                    g.set("data-w", "{{#late~w}}");
                }
                render(body, &mut g.kids);
                out.push(X::El(g));
            }
            Stmt::Reuse(attrs) | Stmt::ReuseLate(attrs) => {
                let mut r = XEl::new("reuse").a("href", if matches!(s, Stmt::ReuseLate(_)) { "#tpl2" } else { "#tpl" });
                for (k, v) in attrs {
                    r.set(NAMES[*k], val_txt(v));
                }
                out.push(X::El(r));
            }
            Stmt::Dflt(k, v) => out.push(X::El(XEl::new("defaults").kid(XEl::new("_").a(NAMES[*k], v.clone())))),
            Stmt::Body => out.push(X::El(XEl::new("text").a("id", "pt").a("data-q", "1").a("xy", "0 0").a("text", probe_text().replace("p:", "q:")))),
            Stmt::ReuseBody(attrs) => {
                let mut r = XEl::new("reuse").a("href", "#pt");
                for (k, v) in attrs {
                    r.set(NAMES[*k], val_txt(v));
                }
                out.push(X::El(r));
            }
            Stmt::Loop(n, body) => {
                let mut l = XEl::new("loop").a("count", format!("{n}"));
                render(body, &mut l.kids);
                out.push(X::El(l));
            }
            Stmt::If(c, body) => {
                let mut l = XEl::new("if").a("test", if *c { "1" } else { "0" });
                render(body, &mut l.kids);
                out.push(X::El(l));
            }
            Stmt::Fwd => out.push(X::El(XEl::new("rect").a("xy", "#late|h 1").a("wh", "2"))),
            Stmt::Plain => out.push(X::El(XEl::new("circle").a("cxy", "3 3").a("r", "1"))),
        }
    }
}

/// template: a group probing the variables, then changing one locally and probing again
fn template() -> XEl {
    XEl::new("g")
        .a("id", "tpl")
        .kid(XEl::new("text").a("data-q", "1").a("xy", "0 0").a("text", probe_text().replace("p:", "t:")))
        .kid(XEl::new("var").a("a", "inner").a("label", "$n"))
        .kid(XEl::new("text").a("data-q", "1").a("xy", "0 0").a("text", probe_text().replace("p:", "u:")))
}

pub fn doc(c: &Case, late_first: bool) -> String {
    let mut kids: Vec<X> = Vec::new();
    let late = XEl::new("rect").a("id", "late").a("xy", "50 50").a("wh", "4");
    // (the template is only there when the program instantiates it: a document may well begin with a group)
    fn has_reuse(p: &[Stmt]) -> bool {
        p.iter().any(|s| match s {
            Stmt::Reuse(_) => true,
            Stmt::G(_, b) | Stmt::Loop(_, b) | Stmt::If(_, b) => has_reuse(b),
            _ => false,
        })
    }
    if has_reuse(&c.prog) {
        kids.push(X::El(XEl::new("specs").kid(template())));
    }
    if late_first {
        kids.push(X::El(late.clone()));
    }
    render(&c.prog, &mut kids);
    if !late_first {
        kids.push(X::El(late));
    }
    // the template of the late reuses comes last in either order
    let mut t2 = template();
    t2.set("id", "tpl2");
    kids.push(X::El(XEl::new("specs").kid(t2)));
    XEl { name: "svg".into(), attrs: vec![], kids }.to_xml()
}

// --------------------------------------------------------------------------- reference interpreter of the stated rule

type Scope = HashMap<usize, String>;

fn lookup(stack: &[Scope], n: usize) -> Option<String> {
    stack.iter().rev().find_map(|s| s.get(&n).cloned())
}

fn eval_val(v: &Val, stack: &[Scope]) -> Option<String> {
    Some(match v {
        Val::Lit(s) => s.clone(),
        // (an undefined $name would be stored verbatim, i.e. as text that itself looks like a reference; what a later
        // reference to such a value yields is not pinned down, so assignments from undefined names are outside the domain)
        Val::Ref(n) => lookup(stack, *n)?,
        Val::Cat(n, s) => format!("{}{s}", lookup(stack, *n)?),
        Val::Inc(k) => {
            // numeric: defined only when n currently holds a number
            let cur = lookup(stack, 2)?;
            let x: f64 = cur.trim().parse().ok()?;
            crate::run::num(x + *k as f64)
        }
    })
}

fn probe_expected(prefix: &str, stack: &[Scope]) -> String {
    format!("{prefix}:{}", (0..NAMES.len()).map(|n| lookup(stack, n).unwrap_or(dollar(n))).collect::<Vec<_>>().join("|"))
}

/// Returns None when the program is outside the domain (an increment of a non-numeric n: the transform must then fail).
fn interpret(prog: &[Stmt], stack: &mut Vec<Scope>, out: &mut Vec<String>) -> Option<()> {
    for s in prog {
        match s {
            Stmt::Var(asg) => {
                // parallel assignment from the values in force before
                let vals: Vec<(usize, String)> = asg.iter().map(|(k, v)| eval_val(v, stack).map(|x| (*k, x))).collect::<Option<Vec<_>>>()?;
                let top = stack.last_mut().unwrap();
                for (k, v) in vals {
                    top.insert(k, v);
                }
            }
            Stmt::Probe => out.push(probe_expected("p", stack)),
            Stmt::G(attrs, body) => {
                if let Some(k) = g_self(attrs) {
                    out.push(format!("g:{}", lookup(stack, k).unwrap_or(dollar(k))));
                }
                stack.push(attrs.iter().map(|(k, v)| (*k, v.clone())).collect());
                let r = interpret(body, stack, out);
                stack.pop();
                r?;
            }
            Stmt::Reuse(attrs) | Stmt::ReuseLate(attrs) => {
                // attributes are evaluated in the scope of the reuse element, then bound for the instance
                let bound: Scope = attrs.iter().map(|(k, v)| eval_val(v, stack).map(|x| (*k, x))).collect::<Option<Scope>>()?;
                stack.push(bound);
                // the instance is a <g>: its own (empty) attribute scope holds the template's <var> assignments
                stack.push(Scope::new());
                out.push(probe_expected("t", stack));
                let n_before = lookup(stack, 2)?;
                let top = stack.last_mut().unwrap();
                top.insert(0, "inner".into());
                top.insert(5, n_before);
                out.push(probe_expected("u", stack));
                stack.pop();
                stack.pop();
            }
            Stmt::Dflt(..) => {}
            Stmt::Body => out.push(probe_expected("q", stack)),
            Stmt::ReuseBody(attrs) => {
                let bound: Scope = attrs.iter().map(|(k, v)| eval_val(v, stack).map(|x| (*k, x))).collect::<Option<Scope>>()?;
                stack.push(bound);
                out.push(probe_expected("q", stack));
                stack.pop();
            }
            Stmt::Loop(n, body) => {
                for _ in 0..*n {
                    interpret(body, stack, out)?;
                }
            }
            Stmt::If(c, body) => {
                if *c {
                    interpret(body, stack, out)?;
                }
            }
            Stmt::Fwd | Stmt::Plain => {}
        }
    }
    Some(())
}

/// The listed finding (KF-C15-1): an element that holds a forward reference - or the top-level construct enclosing it -
/// is evaluated again *after* the elements that follow it, so a <var> assignment made at global scope at or after that
/// point (document order) is visible inside it, or - inside the same top-level loop / if - is applied twice.
/// Predicate: the program has a forward reference, and some global-scope <var> sits in or after the top-level
/// statement that holds the first forward reference.
fn retried_construct_meets_global_assignment(prog: &[Stmt]) -> bool {
    fn has_fwd(s: &Stmt) -> bool {
        match s {
            Stmt::Fwd | Stmt::ReuseLate(_) => true,
            Stmt::G(a, b) => g_fwd(a) || b.iter().any(has_fwd),
            Stmt::Loop(_, b) | Stmt::If(_, b) => b.iter().any(has_fwd),
            _ => false,
        }
    }
    fn has_global_var(s: &Stmt) -> bool {
        match s {
            Stmt::Var(_) => true,
            // a g forms a scope: assignments inside it are not global
            Stmt::Loop(_, b) | Stmt::If(_, b) => b.iter().any(has_global_var),
            _ => false,
        }
    }
    match prog.iter().position(has_fwd) {
        Some(i) => prog[i..].iter().any(has_global_var),
        None => false,
    }
}

fn count_fwd_in_scope(prog: &[Stmt], in_scope: bool) -> (usize, usize) {
    let mut a = (0, 0);
    for s in prog {
        match s {
            Stmt::Fwd => {
                if in_scope {
                    a.0 += 1
                } else {
                    a.1 += 1
                }
            }
            Stmt::G(ga, b) => {
                if g_fwd(ga) {
                    // the group's own scope is what must not outlive the failed attempt
                    a.0 += 1;
                }
                let r = count_fwd_in_scope(b, true);
                a.0 += r.0;
                a.1 += r.1;
            }
            Stmt::Loop(_, b) | Stmt::If(_, b) => {
                let r = count_fwd_in_scope(b, in_scope);
                a.0 += r.0;
                a.1 += r.1;
            }
            _ => {}
        }
    }
    a
}

fn probes_of(out: &str) -> Result<Vec<String>, String> {
    let tree = sxml::parse_tree(out).map_err(|e| e.to_string())?;
    Ok(tree
        .descendants()
        .iter()
        .filter_map(|e| {
            if e.name == "text" && e.has_attr("data-q") {
                Some(e.text_content())
            } else if e.name == "g" && e.has_attr("data-v") {
                Some(format!("g:{}", e.attr("data-v").unwrap_or_default()))
            } else {
                None
            }
        })
        .collect())
}

impl Property for C15 {
    type Case = Case;
    fn id(&self) -> &'static str {
        "C15"
    }
    fn rule(&self) -> String {
        "cases = programs of 2-9 top-level statements nested up to 4 deep over <g attrs> and <reuse attrs> (scope forming), <loop> / <if> (transparent), <var> assignments (literals, $other, ${name}x concatenation, numeric increments, several names at once - parallel swaps), shapes holding a forward reference (which force re-evaluation of whatever encloses them), a probe with an id in the document body that is reused with attributes of its own, and probes <text text=\"p:$a|$b|$n|$fill|$width|$label\"/> reading every name in play; names deliberately coincide with attribute names, one of them hyphenated (read as ${stroke-width}). \
         Oracle 1: a reference interpreter of the stated rule (innermost enclosing definition; <var> values die with the enclosing g / reuse instance; parallel assignment from the values in force before; undefined $name verbatim) predicts every probe's text in output order. Oracle 2 (metamorphic): the same program with the referenced element moved to the front (no forward reference left) yields the same probe texts. \
         Non-trivial = a forward reference sits inside a scope and a probe follows that scope's end, or the program contains a reuse; distinct by hash of the case."
            .into()
    }
    fn assumptions(&self) -> Vec<String> {
        vec![
            "<g> attributes that bind the probed names have literal values (a <g> attribute that itself refers to a variable is pushed unevaluated; what a reference to it should yield is not documented); a third of the groups with attributes also carry data-v=\"$name\" (name = the group's own first attribute: must read the outer value, the group shadows for descendants only - reported as a probe g:value in document order) and a third carry data-w=\"{{#late~w}}\" (the group itself fails once and is tried again: its bindings must not stay behind)".into(),
            "programs that assign from an undefined name (the stored value would itself look like a reference) or increment a non-number are outside the domain (skipped, counted)".into(),
        ]
    }
    fn families(&self, tier: Tier) -> Vec<Family<Case>> {
        vec![Family::random("programs", tier.n(32_000, 200_000), fam_programs)]
    }
    fn judge(&self, case: &Case, _strict: bool) -> Verdict {
        let cfg = Cfg::plain();
        let mut stack: Vec<Scope> = vec![Scope::new()];
        let mut expected: Vec<String> = Vec::new();
        let in_domain = interpret(&case.prog, &mut stack, &mut expected).is_some();
        let d_fwd = doc(case, false);
        let d_back = doc(case, true);
        let (o_fwd, o_back) = (transform(&d_fwd, &cfg), transform(&d_back, &cfg));
        let (in_scope, at_top) = count_fwd_in_scope(&case.prog, false);
        let mut labels = vec![];
        if in_scope > 0 {
            labels.push("forward-ref-inside-scope".to_string());
        }
        if at_top > 0 {
            labels.push("forward-ref-at-top-level".to_string());
        }
        if d_fwd.contains("<reuse") {
            labels.push("reuse".into());
        }
        let listed = retried_construct_meets_global_assignment(&case.prog);
        if !in_domain {
            return match (&o_fwd, &o_back) {
                (Outcome::Ok(_), _) | (_, Outcome::Ok(_)) if !listed => Verdict::skip("assignment-from-undefined-or-non-number", labels, 2),
                _ => Verdict::skip("assignment-from-undefined-or-non-number", labels, 2),
            };
        }
        let back = match o_back {
            Outcome::Ok(o) => o,
            Outcome::Err(k, m) => return Verdict::fail(format!("c15:valid-program-rejected:{k}"), format!("{}\n--- document (no forward references) ---\n{d_back}", crate::run::trunc(&m, 1200)), labels, 2),
            Outcome::Panic(l, m) => return Verdict::fail(format!("c15:panic:{l}"), m, labels, 2),
        };
        let got_back = match probes_of(&back) {
            Ok(p) => p,
            Err(e) => return Verdict::fail("c15:output-illformed", e, labels, 2),
        };
        if got_back != expected {
            let i = got_back.iter().zip(expected.iter()).position(|(a, b)| a != b).unwrap_or(got_back.len().min(expected.len()));
            let which = expected.get(i).map(|s| &s[..1]).unwrap_or("?");
            // a late-template reuse is a forward reference in this order as well
            fn has_late(p: &[Stmt]) -> bool {
                p.iter().any(|s| match s {
                    Stmt::ReuseLate(_) => true,
                    Stmt::G(_, b) | Stmt::Loop(_, b) | Stmt::If(_, b) => has_late(b),
                    _ => false,
                })
            }
            return Verdict::fail(
                if listed && has_late(&case.prog) { "c15:probe-mismatch:re-evaluated-construct-vs-global-assignment".to_string() } else { format!("c15:probe-mismatch:in-order:{}", match which { "t" | "u" => "reuse-template", _ => "probe" }) },
                format!("probe #{i}: the scoping rule predicts {:?}, svgdx shows {:?}\n expected {:?}\n observed {:?}\n--- document (no forward references) ---\n{d_back}\n--- output ---\n{back}", expected.get(i), got_back.get(i), expected, got_back),
                labels,
                2,
            );
        }
        let fwd = match o_fwd {
            Outcome::Ok(o) => o,
            Outcome::Err(k, m) => return Verdict::fail(format!("c15:forward-reference-makes-program-fail:{k}"), format!("{}\n--- document ---\n{d_fwd}", crate::run::trunc(&m, 1200)), labels, 2),
            Outcome::Panic(l, m) => return Verdict::fail(format!("c15:panic:{l}"), m, labels, 2),
        };
        let got_fwd = match probes_of(&fwd) {
            Ok(p) => p,
            Err(e) => return Verdict::fail("c15:output-illformed", e, labels, 2),
        };
        if got_fwd != expected {
            let i = got_fwd.iter().zip(expected.iter()).position(|(a, b)| a != b).unwrap_or(got_fwd.len().min(expected.len()));
            let sig = if listed { "c15:probe-mismatch:re-evaluated-construct-vs-global-assignment".to_string() } else { format!("c15:probe-mismatch:after-re-evaluation:{}", if in_scope > 0 { "scope" } else { "top-level" }) };
            return Verdict::fail(
                sig,
                format!("probe #{i}: with a forward reference present svgdx shows {:?}, without it (and by the scoping rule) {:?}\n expected {:?}\n observed {:?}\n--- document ---\n{d_fwd}\n--- output ---\n{fwd}", got_fwd.get(i), expected.get(i), expected, got_fwd),
                labels,
                2,
            );
        }
        Verdict::pass(in_scope > 0 || d_fwd.contains("<reuse"), labels, 2)
    }
}
