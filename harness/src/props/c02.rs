//! C02 Successful output is always well-formed XML with a proper SVG root.

use crate::engine::{Family, Property, Tier, Verdict};
use crate::gen::{self, DocOpts, XEl, X};
use crate::run::{transform, Cfg, Outcome};
use crate::sxml::{self, Ev};
use proptest::collection::vec;
use proptest::prelude::*;
use serde::{Deserialize, Serialize};

pub struct C02;

#[derive(Clone, Debug, Serialize, Deserialize)]
pub struct Case {
    pub input: String,
    pub cfg: Cfg,
    /// generator's statement: the outermost construct of the input is a single <svg> element
    pub rooted: Option<bool>,
    /// root is namespaced (pass-through mode): a version attribute is not demanded
    pub namespaced: bool,
    pub fam: String,
}

pub const SVG_NS: &str = "http://www.w3.org/2000/svg";

/// Does the input, read the way svgdx reads it (quick-xml, lenient), open element `name` more often than it closes it?
/// (Used only to recognise the listed finding KF-C02-1; the well-formedness oracle is `sxml`.)
fn opens_more_than_closes(text: &str, name: &str) -> bool {
    use quick_xml::events::Event;
    let mut reader = quick_xml::Reader::from_str(text);
    reader.config_mut().check_comments = true;
    let (mut opens, mut closes) = (0i64, 0i64);
    loop {
        match reader.read_event() {
            Ok(Event::Start(e)) if e.name().as_ref() == name.as_bytes() => opens += 1,
            Ok(Event::End(e)) if e.name().as_ref() == name.as_bytes() => closes += 1,
            Ok(Event::Eof) | Err(_) => break,
            _ => {}
        }
    }
    opens > closes
}

fn is_hostile_char(c: char) -> bool {
    matches!(c, '&' | '<' | '>' | '"' | '\'') || (c as u32) > 0x7e
}

/// Did any hostile character reach an attribute value / text / comment / CDATA of the output?
pub fn hostile_reached(evs: &[Ev]) -> bool {
    evs.iter().any(|e| match e {
        Ev::Start { attrs, .. } => attrs.iter().any(|(_, v)| v.chars().any(is_hostile_char)),
        Ev::Text(t) => t.chars().any(is_hostile_char),
        Ev::Comment(t) => t.chars().any(|c| is_hostile_char(c) || c == '-'),
        Ev::CData(t) => t.contains('&') || t.contains('<') || t.contains(']'),
        _ => false,
    })
}

/// The well-formedness oracle shared with other checks.
/// Returns Err((clause, detail)) on violation.
pub fn check_wellformed(output: &str, rooted: bool, namespaced: bool) -> Result<Vec<Ev>, (String, String)> {
    if rooted {
        let evs = sxml::parse_document(output).map_err(|e| ("document-not-wellformed".to_string(), e.to_string()))?;
        let root = evs.iter().find_map(|e| match e {
            Ev::Start { name, attrs, .. } => Some((name, attrs)),
            _ => None,
        });
        let (name, attrs) = root.ok_or(("no-root".to_string(), "no root element".to_string()))?;
        if name != "svg" {
            return Err(("root-not-svg".into(), format!("root element is <{name}>")));
        }
        let xmlns = attrs.iter().find(|(k, _)| k == "xmlns").map(|(_, v)| v.as_str());
        if xmlns != Some(SVG_NS) {
            return Err(("root-no-namespace".into(), format!("root xmlns = {xmlns:?}")));
        }
        if !namespaced && !attrs.iter().any(|(k, _)| k == "version") {
            return Err(("root-no-version".into(), "root has no version attribute".into()));
        }
        Ok(evs)
    } else {
        sxml::parse_content(output).map_err(|e| ("content-not-wellformed".to_string(), e.to_string()))
    }
}

/// which kind of input feature carried the problem: used to keep signatures narrow
fn feature_of(err: &str, output: &str) -> String {
    // classify by the construct at the error position
    let pos = err
        .split("at byte ")
        .nth(1)
        .and_then(|s| s.split(':').next())
        .and_then(|s| s.trim().parse::<usize>().ok())
        .unwrap_or(0);
    let upto = &output[..floor_boundary(output, pos.min(output.len()))];
    let last_open = upto.rfind('<');
    let ctx = last_open.map(|i| &upto[i..]).unwrap_or("");
    let reason = err.split(": ").nth(1).unwrap_or("").to_string();
    let place = if ctx.starts_with("<!--") && !ctx.contains("-->") {
        "in-comment"
    } else if ctx.starts_with("<![CDATA[") && !ctx.contains("]]>") {
        "in-cdata"
    } else if ctx.starts_with("<?") && !ctx.contains("?>") {
        "in-pi"
    } else if !ctx.is_empty() && !ctx.contains('>') {
        "in-tag"
    } else {
        "in-text"
    };
    let r: String = reason.chars().filter(|c| c.is_ascii_alphabetic() || *c == ' ').collect::<String>().split_whitespace().take(4).collect::<Vec<_>>().join("-");
    format!("{place}:{r}")
}

fn floor_boundary(s: &str, mut i: usize) -> usize {
    while i > 0 && !s.is_char_boundary(i) {
        i -= 1;
    }
    i
}

// --------------------------------------------------------------------------- generators

#[derive(Clone, Debug)]
struct HPick {
    kind: u8,
    s: String,
    t: String,
    f: u16,
}

fn hpick() -> impl Strategy<Value = HPick> {
    (0u8..24, prop_oneof![gen::hostile(5), gen::hostile_inert(5)], gen::hostile_inert(3), any::<u16>()).prop_map(|(kind, s, t, f)| HPick { kind, s, t, f })
}

fn cdata_safe(s: &str) -> String {
    s.replace("]]>", "]] >")
}

fn comment_safe(s: &str) -> String {
    let mut o = s.replace("--", "- -");
    if o.ends_with('-') {
        o.push(' ');
    }
    o
}

fn hostile_doc(picks: &[HPick], rooted: bool) -> String {
    let mut els: Vec<X> = Vec::new();
    let mut have_tpl = false;
    for (i, p) in picks.iter().enumerate() {
        let base = |name: &str| XEl::new(name).a("xy", format!("{} {}", i * 12, (p.f % 7) * 3)).a("wh", "10 6");
        match p.kind {
            0 => els.push(X::El(base("rect").a("data-x", p.s.clone()))),
            1 => els.push(X::El(base("rect").a("fill", p.s.clone()))),
            2 => els.push(X::El(base("rect").a("id", format!("h{i}")).a("class", p.s.clone()))),
            3 => els.push(X::El(base("rect").a("style", p.s.clone()))),
            4 => els.push(X::El(base("rect").a("text", p.s.clone()).a("text-style", p.t.clone()))),
            5 => els.push(X::El(base("rect").a("text", p.s.clone()))),
            6 => els.push(X::El(base("rect").text(p.s.clone()))),
            7 => {
                let mut e = base("rect");
                e.kids.push(X::Raw(format!("<![CDATA[{}]]>", cdata_safe(&p.s))));
                els.push(X::El(e));
            }
            8 => els.push(X::El(base("rect").a("_", p.s.clone()))),
            9 => els.push(X::El(base("rect").a("__", p.s.clone()))),
            10 => {
                els.push(X::El(XEl::new("var").a("hv", p.t.clone())));
                let e = match p.f % 5 {
                    0 => base("rect").a("data-y", "$hv"),
                    1 => base("rect").a("text", "a ${hv} b"),
                    2 => base("rect").a("_", "c $hv"),
                    3 => base("rect").text("$hv"),
                    _ => base("rect").a("class", "$hv"),
                };
                els.push(X::El(e));
            }
            11 => {
                // expression string results
                let lit = p.t.replace('\'', "").replace('\\', "");
                let e = match p.f % 4 {
                    0 => base("rect").a("text", format!("{{{{'{lit}'}}}}")),
                    1 => base("rect").a("data-z", format!("{{{{_('{lit}')}}}}")),
                    2 => base("rect").a("text", format!("{{{{join('{lit}', 'a', 'b')}}}}")),
                    _ => base("rect").a("data-z", format!("{{{{'{lit}', 'x'}}}}")),
                };
                els.push(X::El(e));
            }
            12 => {
                if !have_tpl {
                    have_tpl = true;
                    els.push(X::El(XEl::new("specs").kid(XEl::new("rect").a("id", "tpl").a("wh", "8 4").a("text", "$label").a("data-p", "$label"))));
                }
                els.push(X::El(XEl::new("reuse").a("href", "#tpl").a("label", p.t.clone()).a("x", format!("{}", i * 12))));
            }
            13 => {
                els.push(X::El(XEl::new("defaults").kid(XEl::new("rect").a("data-d", p.s.clone()).a("text-style", p.t.clone()))));
            }
            14 => els.push(X::El(base("text").a("text", p.s.clone()))),
            15 => els.push(X::El(XEl::new("text").a("xy", "1 2").text(p.s.clone()))),
            16 => els.push(X::Raw(format!("<!-- {} -->", comment_safe(&p.s)))),
            17 => els.push(X::El(XEl::new("title").text(p.s.clone()))),
            18 => els.push(X::El(XEl::new("a").a("href", p.s.clone()).kid(base("circle")))),
            19 => els.push(X::El(XEl::new("g").a("data-g", p.s.clone()).a("lbl", p.t.clone()).kid(base("rect").a("text", "$lbl")))),
            20 => {
                let mut st = XEl::new("style");
                st.kids.push(X::Raw(format!("<![CDATA[ .x {{ content: \"{}\"; }} ]]>", cdata_safe(&p.s))));
                els.push(X::El(st));
            }
            21 => els.push(X::El(base("rect").a("text", format!("line1\\n{}\\n\\nlast", p.s)).a("class", "d-text-pre"))),
            22 => els.push(X::El(XEl::new("line").a("xy1", "0 0").a("xy2", "10 10").a("text", p.s.clone()).a("marker-end", p.t.clone()))),
            _ => els.push(X::El(XEl::new("polyline").a("points", "0 0 5 5 9 1").a("data-q", p.s.clone()).a("text", p.t.clone()))),
        }
    }
    if rooted {
        XEl { name: "svg".into(), attrs: vec![], kids: els }.to_xml()
    } else {
        let mut s = String::new();
        for e in els {
            match e {
                X::El(e) => s.push_str(&e.to_xml()),
                X::Raw(r) => s.push_str(&r),
                X::Text(t) => s.push_str(&sxml::escape_text(&t)),
            }
            s.push('\n');
        }
        s
    }
}

/// Rooted svgdx documents with hostile strings at every value position (shared with C05/C06).
pub fn hostile_rooted_doc() -> BoxedStrategy<String> {
    vec(hpick(), 1..6).prop_map(|picks| hostile_doc(&picks, true)).boxed()
}

/// C05's documents with a prolog, CDATA next to character data and prefixed element names: they must come out well-formed too
fn fam_prolog(_t: Tier) -> BoxedStrategy<Case> {
    (crate::props::c05::prolog_docs(), gen::cfg_hostile()).prop_map(|(input, cfg)| Case { input, cfg, rooted: Some(true), namespaced: false, fam: "prolog".into() }).boxed()
}

fn fam_hostile(_t: Tier) -> BoxedStrategy<Case> {
    (vec(hpick(), 1..6), gen::cfg_hostile(), prop::bool::weighted(0.8), crate::props::union::root_attrs(), any::<bool>(), 0u8..24)
        .prop_map(|(picks, cfg, rooted, ra, with_ra, junk)| {
            let mut input = hostile_doc(&picks, rooted);
            if rooted && with_ra {
                input = crate::props::union::with_root_attrs(input, &ra);
            }
            // character data outside the root element (the document's outermost element is still the one <svg>)
            if rooted {
                match junk {
                    1 => input.push_str("trailing text"),
                    2 => input.push_str("\n &amp; more &#65;\n"),
                    3 => input = format!("lead {input}"),
                    4 => input.push_str("<![CDATA[x]]>"),
                    _ => {}
                }
            }
            Case { input, cfg, rooted: Some(rooted), namespaced: false, fam: "hostile".into() }
        })
        .boxed()
}

fn passthrough_doc(picks: &[HPick], pre: u8) -> String {
    let mut s = String::new();
    if pre & 1 != 0 {
        s.push_str("<?xml version=\"1.0\" encoding=\"UTF-8\"?>\n");
    }
    if pre & 2 != 0 {
        s.push_str("<!-- leading comment -->\n");
    }
    if pre & 4 != 0 {
        s.push_str("<?pi-before some data?>\n");
    }
    if pre & 8 != 0 {
        s.push_str("<!DOCTYPE svg PUBLIC \"-//W3C//DTD SVG 1.1//EN\" \"http://www.w3.org/Graphics/SVG/1.1/DTD/svg11.dtd\">\n");
    }
    let mut root = XEl::new("svg").a("xmlns", SVG_NS);
    if pre & 16 != 0 {
        root.set("version", "1.1");
    }
    for (i, p) in picks.iter().enumerate() {
        let k = match p.kind % 8 {
            0 => X::El(XEl::new("rect").a("wh", "10").a("data-x", p.s.clone())),
            1 => X::El(XEl::new("text").a("text", p.t.clone()).text(p.s.clone())),
            2 => X::Raw(format!("<!-- {} -->", comment_safe(&p.s))),
            3 => X::Raw(format!("<![CDATA[{}]]>", cdata_safe(&p.s))),
            4 => X::Raw(format!("<?target{i} {}?>", p.s.replace("?>", "? >"))),
            5 => X::El(XEl::new("g").a("class", p.t.clone()).kid(XEl::new("reuse").a("href", "#x").a("_", p.s.clone()))),
            6 => X::Text(p.s.clone()),
            _ => X::El(XEl::new("circle").a("xy", "#a|h").a("fill", p.s.clone())),
        };
        root.kids.push(k);
    }
    s.push_str(&root.to_xml_compact());
    if pre & 32 != 0 {
        s.push_str("\n<!-- trailing comment -->");
    }
    if pre & 64 != 0 {
        s.push_str("\n<?pi-after x?>");
    }
    s.push('\n');
    s
}

fn fam_passthrough(_t: Tier) -> BoxedStrategy<Case> {
    (vec(hpick(), 0..6), any::<u8>(), gen::cfg_hostile())
        .prop_map(|(picks, pre, cfg)| Case { input: passthrough_doc(&picks, pre), cfg, rooted: Some(true), namespaced: true, fam: "passthrough".into() })
        .boxed()
}

/// Near-well-formed inputs which a lenient reader may accept.
fn lenient_doc(kind: u8, p: &HPick) -> (String, Option<bool>) {
    let body = "<rect xy=\"0\" wh=\"5\" text=\"hi\"/>";
    match kind % 14 {
        0 => (format!("<svg>{body}"), Some(true)),                                     // unclosed root
        1 => (format!("<svg><g>{body}</svg>"), Some(true)),                            // mismatched end
        2 => (format!("<svg>{body}</svg>trailing text"), Some(false)),                 // text after root: not a single-rooted input
        3 => (format!("<svg>{body}</svg><svg>{body}</svg>"), Some(false)),             // two roots
        4 => (format!("<svg><rect wh=\"5\" wh=\"6\"/></svg>"), Some(true)),            // duplicate attr
        5 => (format!("<svg xmlns=\"{SVG_NS}\"><rect a=\"1\" a=\"2\"/></svg>"), Some(true)),
        6 => (format!("<svg><rect wh=\"5\" data-x=\"a & b\"/></svg>"), Some(true)),    // bare ampersand
        7 => (format!("<svg><rect wh=\"5\" data-x=\"a < b\"/></svg>"), Some(true)),    // '<' in attribute
        8 => (format!("<svg><text>a & b</text></svg>"), Some(true)),
        9 => (format!("<svg><rect wh='5' data-x={}/></svg>", "unquoted"), Some(true)),
        10 => (format!("<svg><!-- a -- b --><rect wh=\"5\"/></svg>"), Some(true)),
        11 => (format!("<svg xmlns=\"{SVG_NS}\"><text>{}</text>", sxml::escape_text(&p.s)), Some(true)),
        12 => (format!("<svg>{body}</svg></g>"), Some(true)),
        _ => (format!("<svg><rect wh=\"5\" class=\"a\" class=\"b\"/><text>]]></text>&bogus;</svg>"), Some(true)),
    }
}

fn fam_lenient(_t: Tier) -> BoxedStrategy<Case> {
    (0u8..14, hpick(), gen::cfg_benign())
        .prop_map(|(k, p, cfg)| {
            let (input, rooted) = lenient_doc(k, &p);
            let namespaced = input.starts_with("<svg xmlns");
            Case { input, cfg, rooted, namespaced, fam: "lenient".into() }
        })
        .boxed()
}

/// characters (and references to characters) that XML does not allow, at every kind of position: the transform may refuse
/// the input, but whatever it outputs must be well-formed
const NON_CHARS: &[&str] = &[
    "\u{FFFE}", "\u{FFFF}", "\u{1}", "\u{B}", "\u{1F}", "\u{0}", "&#xFFFE;", "&#xFFFF;", "&#65535;", "&#1;", "&#x0;", "&#xD800;", "&#x110000;", "\u{FFFD}", "\u{7F}", "\u{85}", "&#x9;", "&#xFFFD;", "\u{E000}", "\u{10FFFF}", "&#x10FFFF;",
];

fn fam_nonchars(_t: Tier) -> BoxedStrategy<Case> {
    (0..NON_CHARS.len(), 0u8..9, any::<bool>(), gen::cfg_benign())
        .prop_map(|(i, pos, ns, cfg)| {
            let c = NON_CHARS[i];
            let body = match pos {
                0 => format!("<rect wh=\"5\" fill=\"a{c}b\" text=\"hi\"/>"),
                1 => format!("<rect wh=\"5\" text=\"note{c}\"/>"),
                2 => format!("<text xy=\"0\">x{c}y</text>"),
                3 => format!("<rect wh=\"5\"/><!-- c{c}c --><rect wh=\"2\"/>"),
                4 => format!("<style><![CDATA[ .a{c} {{ fill: red }} ]]></style><rect wh=\"5\"/>"),
                5 => format!("<rect wh=\"5\" class=\"k{c}\" id=\"i1\"/>"),
                6 => format!("<g data-k=\"{c}\"><title>t{c}</title><rect wh=\"5\"/></g>"),
                7 => format!("<rect wh=\"5\" _=\"cm{c}\"/>"),
                _ => format!("<var v=\"{c}\"/><rect wh=\"5\" text=\"$v\"/>"),
            };
            let input = if ns { format!("<svg xmlns=\"{SVG_NS}\">{body}</svg>") } else { format!("<svg>{body}</svg>") };
            Case { input, cfg, rooted: Some(true), namespaced: ns, fam: "non-chars".into() }
        })
        .boxed()
}

/// XML declarations built from the grammar's parts, each part well-formed or damaged: what is copied to the output must be a
/// declaration an XML parser accepts
fn fam_xml_decls(_t: Tier) -> BoxedStrategy<Case> {
    const VERSION: &[&str] = &[" version=\"1.0\"", " version='1.1'", " version = \"1.0\"", " version=\"2\"", " version=\"1.\"", " version=1.0", "version=\"1.0\"", " Version=\"1.0\"", ""];
    const ENCODING: &[&str] = &["", " encoding=\"UTF-8\"", " encoding='utf-8'", " encoding=;UTF-8\"", " encoding=\"\"", " encoding=\"8bit\"", " encoding=\"UTF 8\"", "encoding=\"UTF-8\"", " encoding=\"UTF-8"];
    const STANDALONE: &[&str] = &["", " standalone=\"yes\"", " standalone='no'", " standalone=\"maybe\"", " standalone=yes", " bogus=\"1\"", " standalone=\"no\" encoding=\"UTF-8\""];
    (0..VERSION.len(), 0..ENCODING.len(), 0..STANDALONE.len(), 0u8..3, any::<bool>(), gen::cfg_benign())
        .prop_map(|(v, e, sd, tail, ns, cfg)| {
            let decl = format!("<?xml{}{}{}{}?>", VERSION[v], ENCODING[e], STANDALONE[sd], ["", " ", "\n"][tail as usize]);
            let body = "<rect x=\"1\" y=\"2\" width=\"10\" height=\"5\"/>";
            let input = if ns { format!("{decl}\n<svg xmlns=\"{SVG_NS}\">{body}</svg>") } else { format!("{decl}\n<svg>{body}</svg>") };
            Case { input, cfg, rooted: Some(true), namespaced: ns, fam: "xml-declarations".into() }
        })
        .boxed()
}

fn fam_docgen(_t: Tier) -> BoxedStrategy<Case> {
    (gen::docgen(DocOpts::all(), 10, gen::hostile(4).boxed()), gen::cfg_hostile(), crate::props::union::root_attrs(), any::<bool>())
        .prop_map(|(input, cfg, ra, with_ra)| {
            let input = if with_ra { crate::props::union::with_root_attrs(input, &ra) } else { input };
            Case { input, cfg, rooted: Some(true), namespaced: false, fam: "docgen".into() }
        })
        .boxed()
}

fn corpus_cases() -> Vec<Case> {
    let cfgs = [
        Cfg::default(),
        Cfg { debug: true, add_metadata: true, ..Cfg::default() },
        Cfg { theme: "dark".into(), background: "a & <b> \" ]]> --".into(), font_family: "']]><x>'".into(), ..Cfg::default() },
    ];
    let mut out = Vec::new();
    for (_n, s) in gen::corpus_strings() {
        for c in &cfgs {
            out.push(Case { input: s.clone(), cfg: c.clone(), rooted: None, namespaced: false, fam: "corpus".into() });
        }
    }
    out
}

impl Property for C02 {
    type Case = Case;
    fn id(&self) -> &'static str {
        "C02"
    }
    fn rule(&self) -> String {
        "cases = (input, config); families: hostile strings injected at every value position of svgdx documents and fragments, \
         namespaced pass-through documents with prolog/epilog, near-well-formed inputs, DocGen x hostile configs, repository corpus x 3 configs. \
         Oracle: strict XML parser sxml accepts the output (document when the input's outermost element is a single <svg>, else content) and the root is \
         <svg> with the SVG namespace (and a version in svgdx mode). Non-trivial = transform Ok AND a hostile character (& < > \" ' or non-ASCII) reached an \
         attribute value, text, comment or CDATA of the parsed output, or the input is from the near-well-formed family; distinct by hash of the case."
            .into()
    }
    fn assumptions(&self) -> Vec<String> {
        vec![
            "sxml (harness strict XML 1.0 parser) is correct; cross-checked against expat by selftest".into(),
            "inputs on which the transform fails are outside the property (counted as skipped)".into(),
        ]
    }
    fn families(&self, tier: Tier) -> Vec<Family<Case>> {
        let mut corpus = corpus_cases();
        if tier == Tier::Quick {
            // deterministic thinning: every 2nd case
            corpus = corpus.into_iter().enumerate().filter(|(i, _)| i % 2 == 0).map(|(_, c)| c).collect();
        }
        vec![
            Family::random("hostile", tier.n(16_000, 120_000), fam_hostile),
            Family::random("passthrough", tier.n(6_000, 30_000), fam_passthrough),
            Family::random("lenient", tier.n(1_600, 3000), fam_lenient),
            Family::random("prolog-and-mixed-content", tier.n(4_000, 20_000), fam_prolog),
            Family::random("xml-declarations", tier.n(1_500, 6_000), fam_xml_decls),
            Family::random("non-chars", tier.n(1_500, 8000), fam_nonchars),
            Family::random("docgen", tier.n(8_000, 50_000), fam_docgen),
            Family::fixed("corpus", corpus),
        ]
    }
    fn fuzz(&self) -> Option<crate::engine::FuzzSpec<Case>> {
        fn decode(data: &[u8]) -> Option<Case> {
            let (k, doc) = crate::fuzzrider::split(data)?;
            let input = String::from_utf8(doc.to_vec()).ok()?;
            Some(Case { input, cfg: crate::fuzzrider::cfg_table()[k].clone(), rooted: None, namespaced: false, fam: "fuzz".into() })
        }
        Some(crate::engine::FuzzSpec { target: "c02_wellformed", secs: 180, decode })
    }
    fn judge(&self, case: &Case, _strict: bool) -> Verdict {
        let labels = vec![];
        let out = match transform(&case.input, &case.cfg) {
            Outcome::Ok(s) => s,
            Outcome::Err(k, _) => return Verdict::skip(format!("transform-err:{k}"), labels, 1),
            Outcome::Panic(l, _) => return Verdict::skip(format!("panic-is-C01:{l}"), labels, 1),
        };
        // outermost construct of the input
        let (rooted, namespaced) = match case.rooted {
            Some(r) => (r, case.namespaced),
            None => match sxml::parse_document(&case.input) {
                Ok(evs) => {
                    let root = evs.iter().find_map(|e| match e {
                        Ev::Start { name, attrs, .. } => Some((name.clone(), attrs.clone())),
                        _ => None,
                    });
                    match root {
                        Some((n, a)) if n == "svg" => {
                            let ns = a.iter().find(|(k, _)| k == "xmlns").map(|(_, v)| v.clone());
                            match ns {
                                None => (true, false),
                                Some(v) if v == SVG_NS => (true, true),
                                // foreign namespace on the root: outside the property's domain
                                Some(_) => (false, false),
                            }
                        }
                        _ => (false, false),
                    }
                }
                Err(_) => (false, false),
            },
        };
        match check_wellformed(&out, rooted, namespaced) {
            Ok(evs) => {
                let nt = hostile_reached(&evs) || case.fam == "lenient";
                let mut labels = labels;
                if rooted {
                    labels.push("rooted".into());
                }
                if namespaced {
                    labels.push("namespaced".into());
                }
                if hostile_reached(&evs) {
                    labels.push("hostile-reached-output".into());
                }
                Verdict::pass(nt, labels, 1)
            }
            Err((clause, detail)) => {
                let feat = if clause.contains("wellformed") { feature_of(&detail, &out) } else { String::new() };
                // narrow signature for the listed finding: an element left unclosed in the *input*
                // is emitted unclosed
                // (the output's own defect must be that very element: it is unclosed in the output, and the input
                // opens it more often than it closes it)
                let unclosed_name = detail.split("unclosed element '").nth(1).and_then(|r| r.split('\'').next()).map(|s| s.to_string());
                let input_unclosed = match &unclosed_name {
                    Some(n) => opens_more_than_closes(&case.input, n),
                    // an unclosed root <svg> is closed early by the writer: what follows it then looks like further roots
                    None => detail.contains("more than one root") && matches!(sxml::parse_content(&case.input), Err(e) if e.msg.starts_with("unclosed element")),
                };
                let sig = if clause.contains("wellformed") && input_unclosed {
                    "c02:unclosed-element-in-input".to_string()
                } else {
                    format!("c02:{clause}:{feat}")
                };
                Verdict::fail(
                    sig,
                    format!("{detail}\n--- input ---\n{}\n--- config ---\n{:?}\n--- output ---\n{}", case.input, case.cfg, crate::run::trunc(&out, 3000)),
                    vec![],
                    1,
                )
            }
        }
    }
}
