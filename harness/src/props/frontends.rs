//! Process-level front-ends: the real `svgdx` binary and a live `svgdx-server`,
//! built from /repo's working tree into /verif/target/repo-bins by run.sh.

use crate::engine::{hash_bytes, ParentPhase, Tier};
use crate::props::c01::{shape_doc, Blob};
use crate::run::Cfg;
use serde_json::json;
use std::io::{Read, Write};
use std::net::TcpStream;
use std::os::unix::process::ExitStatusExt;
use std::path::{Path, PathBuf};
use std::process::{Child, Command, Stdio};
use std::time::{Duration, Instant};

pub const CLI_BIN: &str = "/verif/target/repo-bins/release/svgdx";
pub const SERVER_BIN: &str = "/verif/target/repo-bins/release/svgdx-server";

pub fn run_dir(tag: &str) -> PathBuf {
    let d = PathBuf::from(format!("/verif/target/run/{}-{}", tag, std::process::id()));
    let _ = std::fs::remove_dir_all(&d);
    std::fs::create_dir_all(&d).expect("create run dir");
    d
}

#[derive(Debug, Clone)]
pub struct CliResult {
    pub code: Option<i32>,
    pub signal: Option<i32>,
    pub stdout: Vec<u8>,
    pub stderr: Vec<u8>,
    pub timed_out: bool,
}

/// Run the svgdx binary. `cpu_budget` seconds of CPU (not wall) before the run is called a hang.
pub fn run_cli(args: &[String], stdin: Option<&[u8]>, cwd: &Path, cpu_budget: f64) -> CliResult {
    // 4 GiB address-space limit (see engine::Worker::spawn)
    let mut cmd = Command::new("/bin/sh");
    cmd.arg("-c").arg("ulimit -v 4194304; exec \"$0\" \"$@\"").arg(CLI_BIN);
    cmd.args(args).current_dir(cwd).stdout(Stdio::piped()).stderr(Stdio::piped());
    cmd.stdin(if stdin.is_some() { Stdio::piped() } else { Stdio::null() });
    let mut child = cmd.spawn().expect("spawn svgdx binary");
    let pid = child.id();
    let mut so = child.stdout.take().unwrap();
    let mut se = child.stderr.take().unwrap();
    let t_out = std::thread::spawn(move || {
        let mut v = Vec::new();
        let _ = so.read_to_end(&mut v);
        v
    });
    let t_err = std::thread::spawn(move || {
        let mut v = Vec::new();
        let _ = se.read_to_end(&mut v);
        v
    });
    if let Some(data) = stdin {
        let mut si = child.stdin.take().unwrap();
        let data = data.to_vec();
        std::thread::spawn(move || {
            let _ = si.write_all(&data);
        });
    }
    let t0 = Instant::now();
    let mut timed_out = false;
    let status = loop {
        match child.try_wait() {
            Ok(Some(s)) => break Some(s),
            Ok(None) => {}
            Err(_) => break None,
        }
        let cpu = proc_cpu(pid).unwrap_or(0.0);
        if cpu > cpu_budget || t0.elapsed().as_secs_f64() > cpu_budget * 30.0 + 60.0 {
            timed_out = cpu > cpu_budget;
            let _ = child.kill();
            break child.wait().ok();
        }
        std::thread::sleep(Duration::from_millis(2));
    };
    let stdout = t_out.join().unwrap_or_default();
    let stderr = t_err.join().unwrap_or_default();
    CliResult { code: status.and_then(|s| s.code()), signal: status.and_then(|s| s.signal()), stdout, stderr, timed_out }
}

fn proc_cpu(pid: u32) -> Option<f64> {
    let s = std::fs::read_to_string(format!("/proc/{pid}/stat")).ok()?;
    let rest = &s[s.rfind(')')? + 1..];
    let f: Vec<&str> = rest.split_whitespace().collect();
    let ut: f64 = f.get(11)?.parse().ok()?;
    let st: f64 = f.get(12)?.parse().ok()?;
    Some((ut + st) / 100.0)
}

pub struct Server {
    child: Child,
    pub port: u16,
}

impl Server {
    pub fn start() -> Option<Server> {
        for _attempt in 0..5 {
            let port = {
                let l = std::net::TcpListener::bind("127.0.0.1:0").ok()?;
                l.local_addr().ok()?.port()
            };
            let child = Command::new("/bin/sh")
                .arg("-c")
                .arg("ulimit -v 16777216; exec \"$0\" \"$@\"")
                .arg(SERVER_BIN)
                .args(["--address", "127.0.0.1", "--port", &port.to_string()])
                .stdout(Stdio::null())
                .stderr(Stdio::null())
                .stdin(Stdio::null())
                .spawn()
                .ok()?;
            // The server must not outlive the process that started it (a worker is killed, not asked to stop): a
            // small watcher ends it once that process is gone.
            let _ = Command::new("/bin/sh")
                .arg("-c")
                .arg("while kill -0 \"$0\" 2>/dev/null && kill -0 \"$1\" 2>/dev/null; do sleep 1; done; grep -q svgdx-server \"/proc/$1/cmdline\" 2>/dev/null && kill -9 \"$1\"")
                .arg(std::process::id().to_string())
                .arg(child.id().to_string())
                .stdout(Stdio::null())
                .stderr(Stdio::null())
                .stdin(Stdio::null())
                .spawn();
            let mut s = Server { child, port };
            let t0 = Instant::now();
            while t0.elapsed() < Duration::from_secs(10) {
                if let Ok(Some(_)) = s.child.try_wait() {
                    break; // died (port race): retry
                }
                if TcpStream::connect(("127.0.0.1", port)).is_ok() {
                    return Some(s);
                }
                std::thread::sleep(Duration::from_millis(20));
            }
        }
        None
    }
    pub fn alive(&mut self) -> bool {
        matches!(self.child.try_wait(), Ok(None))
    }
    pub fn exit_desc(&mut self) -> String {
        match self.child.try_wait() {
            Ok(Some(s)) => format!("exited: code {:?} signal {:?}", s.code(), s.signal()),
            _ => "running".into(),
        }
    }
    pub fn pid(&self) -> u32 {
        self.child.id()
    }
}

impl Drop for Server {
    fn drop(&mut self) {
        let _ = self.child.kill();
        let _ = self.child.wait();
    }
}

#[derive(Debug, Clone)]
pub struct HttpResp {
    pub status: u16,
    pub content_type: String,
    pub body: Vec<u8>,
}

/// Minimal HTTP/1.1 client: one request per connection.
pub fn http_post(port: u16, path: &str, body: &[u8], timeout: Duration) -> Result<HttpResp, String> {
    let mut s = TcpStream::connect(("127.0.0.1", port)).map_err(|e| format!("connect: {e}"))?;
    s.set_read_timeout(Some(timeout)).ok();
    s.set_write_timeout(Some(timeout)).ok();
    let head = format!(
        "POST {path} HTTP/1.1\r\nHost: 127.0.0.1\r\nContent-Type: text/plain; charset=utf-8\r\nContent-Length: {}\r\nConnection: close\r\n\r\n",
        body.len()
    );
    s.write_all(head.as_bytes()).map_err(|e| format!("write: {e}"))?;
    s.write_all(body).map_err(|e| format!("write body: {e}"))?;
    let mut raw = Vec::new();
    s.read_to_end(&mut raw).map_err(|e| format!("read: {e}"))?;
    parse_http(&raw)
}

fn parse_http(raw: &[u8]) -> Result<HttpResp, String> {
    let sep = raw.windows(4).position(|w| w == b"\r\n\r\n").ok_or_else(|| format!("no header end in {} bytes", raw.len()))?;
    let head = String::from_utf8_lossy(&raw[..sep]).to_string();
    let mut lines = head.split("\r\n");
    let status_line = lines.next().unwrap_or("");
    let status: u16 = status_line.split_whitespace().nth(1).and_then(|s| s.parse().ok()).ok_or_else(|| format!("bad status line {status_line}"))?;
    let mut content_type = String::new();
    let mut chunked = false;
    let mut clen: Option<usize> = None;
    for l in lines {
        if let Some((k, v)) = l.split_once(':') {
            let k = k.trim().to_ascii_lowercase();
            let v = v.trim();
            match k.as_str() {
                "content-type" => content_type = v.to_string(),
                "transfer-encoding" => chunked = v.to_ascii_lowercase().contains("chunked"),
                "content-length" => clen = v.parse().ok(),
                _ => {}
            }
        }
    }
    let mut body = raw[sep + 4..].to_vec();
    if chunked {
        let mut out = Vec::new();
        let mut i = 0;
        loop {
            let nl = body[i..].windows(2).position(|w| w == b"\r\n").ok_or("bad chunk")? + i;
            let sz = usize::from_str_radix(String::from_utf8_lossy(&body[i..nl]).split(';').next().unwrap_or("").trim(), 16).map_err(|_| "bad chunk size")?;
            if sz == 0 {
                break;
            }
            let start = nl + 2;
            if start + sz > body.len() {
                return Err("truncated chunk".into());
            }
            out.extend_from_slice(&body[start..start + sz]);
            i = start + sz + 2;
        }
        body = out;
    } else if let Some(n) = clen {
        if body.len() < n {
            return Err(format!("truncated body {} < {}", body.len(), n));
        }
        body.truncate(n);
    }
    Ok(HttpResp { status, content_type, body })
}

// ---------------------------------------------------------------------------
// C01 process-level phase

fn c01_inputs(tier: Tier, seed: u64) -> Vec<(String, Vec<u8>)> {
    let mut v: Vec<(String, Vec<u8>)> = Vec::new();
    // all shape kinds at two sizes (deterministic in seed)
    let sizes: &[usize] = if tier == Tier::Quick { &[3, 2000] } else { &[1, 40, 3000, 150_000] };
    for kind in 0u8..33 {
        for (j, n) in sizes.iter().enumerate() {
            let sel = (crate::engine::splitmix(seed ^ ((kind as u64) << 8) ^ j as u64) & 0xffff) as u16;
            let (name, doc) = shape_doc(kind, *n, sel);
            v.push((format!("shape:{name}:{n}"), doc.into_bytes()));
        }
    }
    // corpus subset
    let step = if tier == Tier::Quick { 9 } else { 2 };
    for (i, (n, b)) in crate::gen::corpus_files().into_iter().enumerate() {
        if i % step == (seed as usize % step) {
            v.push((format!("corpus:{n}"), b));
        }
    }
    // hostile bytes
    v.push(("nonutf8:name".into(), b"<svg><\xff\xfe wh=\"1\"/></svg>".to_vec()));
    v.push(("nonutf8:text".into(), b"<svg xmlns=\"http://www.w3.org/2000/svg\"><text>\xff</text><!-- \xc0 --></svg>".to_vec()));
    v.push(("nonutf8:attr".into(), b"<svg><rect wh=\"\xed\xa0\x80\"/></svg>".to_vec()));
    v.push(("empty".into(), Vec::new()));
    v.push(("nul".into(), vec![0u8; 64]));
    v
}

pub fn c01_process_phase(tier: Tier, seed: u64) -> ParentPhase {
    let mut pp = ParentPhase::default();
    if !Path::new(CLI_BIN).exists() || !Path::new(SERVER_BIN).exists() {
        pp.failures.push(("machinery:no-binaries".into(), format!("{CLI_BIN} or {SERVER_BIN} missing: run ./run.sh setup"), json!({})));
        return pp;
    }
    let dir = run_dir("c01");
    let inputs = c01_inputs(tier, seed);
    let cfg = Cfg::default();
    let mut server = match Server::start() {
        Some(s) => s,
        None => {
            pp.failures.push(("machinery:server-start".into(), "svgdx-server did not start".into(), json!({})));
            return pp;
        }
    };
    let mut n_cli = 0usize;
    let mut n_srv = 0usize;
    for (k, (name, bytes)) in inputs.iter().enumerate() {
        if crate::props::c01::raises_limits(bytes) {
            continue;
        }
        if pp.failures.len() >= 6 {
            break;
        }
        let h = hash_bytes(bytes);
        // --- CLI: file -> stdout, and stdin -> file
        let inp = dir.join(format!("in{k}.xml"));
        std::fs::write(&inp, bytes).expect("write input");
        let outp = dir.join(format!("out{k}.svg"));
        let runs = [
            (vec![inp.to_string_lossy().to_string()], None, "file->stdout"),
            (vec!["-".to_string(), "-o".to_string(), outp.to_string_lossy().to_string()], Some(bytes.as_slice()), "stdin->file"),
        ];
        for (args, stdin, mode) in runs {
            let mut a = cfg.cli_args();
            a.extend(args);
            let r = run_cli(&a, stdin, &dir, 20.0);
            n_cli += 1;
            let bad = if r.timed_out {
                Some("hang".to_string())
            } else if let Some(sig) = r.signal {
                Some(format!("signal {sig}"))
            } else {
                match r.code {
                    Some(0) => None,
                    Some(1) => {
                        if r.stderr.is_empty() {
                            Some("exit 1 without a message".to_string())
                        } else if String::from_utf8_lossy(&r.stderr).contains("panicked at") {
                            Some("panic".to_string())
                        } else {
                            None
                        }
                    }
                    // 101 = Rust panic exit code; anything else is unexpected too
                    other => Some(format!("exit {other:?}")),
                }
            };
            if let Some(b) = bad {
                pp.failures.push((
                    format!("cli:{}:{}", b.split_whitespace().next().unwrap_or(""), name.split(':').take(2).collect::<Vec<_>>().join(":")),
                    format!("svgdx binary ({mode}) on input '{name}': {b}; stderr: {}", crate::run::trunc(&String::from_utf8_lossy(&r.stderr), 500)),
                    json!({"frontend": "cli", "mode": mode, "name": name, "input": Blob::from_bytes(bytes.clone())}),
                ));
            }
        }
        let _ = std::fs::remove_file(&inp);
        let _ = std::fs::remove_file(&outp);
        // --- server (request body must be < 2 MiB: axum's default limit)
        if bytes.len() < 1_900_000 {
            n_srv += 1;
            let r = http_post(server.port, "/api/transform?add_metadata=false", bytes, Duration::from_secs(120));
            let alive = server.alive();
            let bad = match (&r, alive) {
                (_, false) => Some(format!("server died ({})", server.exit_desc())),
                (Ok(resp), true) if matches!(resp.status, 200 | 400 | 413 | 415) => None,
                (Ok(resp), true) => Some(format!("status {}", resp.status)),
                (Err(e), true) => Some(format!("no response ({e})")),
            };
            if let Some(b) = bad {
                pp.failures.push((
                    format!("server:{}:{}", b.split_whitespace().take(2).collect::<Vec<_>>().join("-"), name.split(':').take(2).collect::<Vec<_>>().join(":")),
                    format!("POST /api/transform with input '{name}': {b}"),
                    json!({"frontend": "server", "name": name, "input": Blob::from_bytes(bytes.clone())}),
                ));
                if !alive {
                    match Server::start() {
                        Some(s) => server = s,
                        None => break,
                    }
                }
            }
            // liveness request
            if k % 10 == 0 {
                let lr = http_post(server.port, "/api/transform", b"<svg><rect wh=\"1\"/></svg>", Duration::from_secs(30));
                if !matches!(&lr, Ok(r) if r.status == 200) {
                    pp.failures.push(("server:liveness".into(), format!("liveness request after '{name}' failed: {lr:?}"), json!({"frontend": "server", "after": name})));
                }
            }
        }
        pp.nontrivial_hashes.push(h ^ 0xC11);
        if pp.samples.len() < 3 {
            pp.samples.push(json!({"process_level_input": name, "bytes": bytes.len()}));
        }
    }
    pp.evaluations = n_cli + n_srv;
    pp.coverage.insert("cli_executions".into(), json!(n_cli));
    pp.coverage.insert("server_requests".into(), json!(n_srv));
    pp.labels.push("process-level-phase".into());
    let _ = std::fs::remove_dir_all(&dir);
    pp
}
