//! C17 Limits reject exactly when exceeded; depth means nesting, not length.

use crate::engine::{Family, Property, Tier, Verdict};
use crate::run::{transform, Cfg, Outcome};
use crate::sxml;
use proptest::collection::vec;
use proptest::prelude::*;
use serde::{Deserialize, Serialize};

pub struct C17;

#[derive(Clone, Debug, Serialize, Deserialize)]
pub struct Case {
    pub doc: String,
    pub loop_limit: u32,
    pub var_limit: u32,
    pub depth_limit: u32,
    /// Some(n): the transform must succeed and render exactly n elements of class "body"; None: it must fail
    pub expect_bodies: Option<usize>,
    pub what: String,
}

const BODY: &str = "<rect class=\"body\" wh=\"1\"/>";

fn mk(doc: String, ll: u32, vl: u32, dl: u32, expect: Option<usize>, what: String) -> Case {
    Case { doc, loop_limit: ll, var_limit: vl, depth_limit: dl, expect_bodies: expect, what }
}

/// limit given by configuration or by a <config> element inside the document
fn with_limit(key: &str, l: u32, via_element: bool, body: &str) -> (String, u32) {
    if via_element {
        (format!("<svg><config {key}=\"{l}\"/>{body}</svg>"), u32::MAX)
    } else {
        (format!("<svg>{body}</svg>"), l)
    }
}

fn loop_cases(tier: Tier) -> Vec<Case> {
    let mut v = Vec::new();
    let ls: Vec<u32> = if tier == Tier::Quick { vec![0, 1, 2, 3, 5, 17, 1000, 1100] } else { (0..=40).chain([100, 1000, 1100]).collect() };
    for &l in &ls {
        for d in [-1i64, 0, 1] {
            let n = l as i64 + d;
            if n < 0 {
                continue;
            }
            let n = n as u32;
            let ok = n <= l;
            for via in [false, true] {
                // forms: count, count with loop-var, while, until, for, nested (inner loop at the boundary inside an outer loop of 2)
                let forms: Vec<(&str, String, usize)> = vec![
                    ("count", format!("<loop count=\"{n}\">{BODY}</loop>"), n as usize),
                    ("count-loopvar", format!("<loop count=\"{n}\" loop-var=\"i\" step=\"2\"><rect class=\"body\" xy=\"$i 0\" wh=\"1\"/></loop>"), n as usize),
                    ("while", format!("<var k=\"0\"/><loop while=\"lt($k, {n})\">{BODY}<var k=\"{{{{$k + 1}}}}\"/></loop>"), n as usize),
                    ("until", format!("<var k=\"0\"/><loop until=\"ge($k, {n})\">{BODY}<var k=\"{{{{$k + 1}}}}\"/></loop>"), n.max(1) as usize),
                    ("for", format!("<for data=\"{}\" var=\"q\">{BODY}</for>", (0..n.max(1)).map(|i| i.to_string()).collect::<Vec<_>>().join(", ")), n.max(1) as usize),
                    ("nested", format!("<loop count=\"2\"><loop count=\"{n}\">{BODY}</loop></loop>"), 2 * n as usize),
                ];
                for (name, body, bodies) in forms {
                    // until always makes at least one pass, for over our list has max(n,1) items
                    let passes = if name == "until" || name == "for" { n.max(1) } else { n };
                    let ok_here = if name == "nested" { ok && 2 <= l } else { passes <= l };
                    let _ = ok;
                    let (doc, cfg_l) = with_limit("loop-limit", l, via, &body);
                    let ll = if via { 1000 } else { cfg_l };
                    v.push(mk(doc, ll, 1024, 100, if ok_here { Some(bodies) } else { None }, format!("loop:{name}:L={l}:n={n}:{}", if via { "config-element" } else { "config" })));
                    // the same loop inside <specs>: nothing is rendered there, but the limit holds all the same
                    if matches!(name, "count" | "while" | "nested") {
                        let (doc, cfg_l) = with_limit("loop-limit", l, via, &format!("<specs>{body}</specs>"));
                        let ll = if via { 1000 } else { cfg_l };
                        v.push(mk(doc, ll, 1024, 100, if ok_here { Some(0) } else { None }, format!("loop:{name}-in-specs:L={l}:n={n}:{}", if via { "config-element" } else { "config" })));
                    }
                }
            }
        }
    }
    v
}

fn var_cases(tier: Tier) -> Vec<Case> {
    let mut v = Vec::new();
    let ls: Vec<u32> = if tier == Tier::Quick { vec![1, 2, 3, 5, 17, 64, 1024, 1300] } else { (1..=40).chain([64, 100, 1024, 1300]).collect() };
    for &l in &ls {
        for d in [-1i64, 0, 1] {
            let n = (l as i64 + d).max(0) as usize;
            let ok = n <= l as usize;
            for via in [false, true] {
                let direct = format!("<var v=\"{}\"/><text class=\"body\" text=\"$v\"/>", "a".repeat(n));
                let (doc, cfg_l) = with_limit("var-limit", l, via, &direct);
                v.push(mk(doc, 1000, if via { 1024 } else { cfg_l }, 100, if ok { Some(1) } else { None }, format!("var:direct:L={l}:len={n}:{}", if via { "config-element" } else { "config" })));
                // via an expression result
                let expr = format!("<var a=\"{}\"/><var v=\"$a$a\"/><text class=\"body\" text=\"x\"/>", "b".repeat(n / 2));
                let len2 = (n / 2) * 2;
                let (doc, cfg_l) = with_limit("var-limit", l, via, &expr);
                v.push(mk(doc, 1000, if via { 1024 } else { cfg_l }, 100, if len2 <= l as usize { Some(1) } else { None }, format!("var:concat:L={l}:len={len2}:{}", if via { "config-element" } else { "config" })));
                // a <var> inside <specs>
                let in_specs = format!("<specs><var v=\"{}\"/></specs><text class=\"body\" text=\"x\"/>", "e".repeat(n));
                let (doc, cfg_l) = with_limit("var-limit", l, via, &in_specs);
                v.push(mk(doc, 1000, if via { 1024 } else { cfg_l }, 100, if ok { Some(1) } else { None }, format!("var:direct-in-specs:L={l}:len={n}:{}", if via { "config-element" } else { "config" })));
                // the length of a value is its number of characters, whatever they are
                for fill in ["\u{e9}", "\u{65e5}", "\u{1f600}"] {
                    let direct = format!("<var v=\"{}\"/><text class=\"body\" text=\"$v\"/>", fill.repeat(n));
                    let (doc, cfg_l) = with_limit("var-limit", l, via, &direct);
                    v.push(mk(doc, 1000, if via { 1024 } else { cfg_l }, 100, if ok { Some(1) } else { None }, format!("var:direct-non-ascii:L={l}:len={n}:{}", if via { "config-element" } else { "config" })));
                    if l >= 4 {
                        let doc = format!("<specs><text id=\"t\" class=\"body\" text=\"$m\"/></specs><reuse href=\"#t\" m=\"{}\"/>", fill.repeat(n));
                        let (doc, cfg_l) = with_limit("var-limit", l, via, &doc);
                        v.push(mk(doc, 1000, if via { 1024 } else { cfg_l }, 100, if ok { Some(1) } else { None }, format!("var:reuse-attr-non-ascii:L={l}:len={n}:{}", if via { "config-element" } else { "config" })));
                    }
                }
                // attributes of a <reuse> become variables of the instance: given directly, and by expansion
                // (every attribute of the reuse element is such a variable, href="#t" included: only limits that admit it)
                if l < 4 {
                    continue;
                }
                let tpl = "<specs><text id=\"t\" class=\"body\" text=\"$m\"/></specs>";
                let direct = format!("{tpl}<reuse href=\"#t\" m=\"{}\"/>", "c".repeat(n));
                let (doc, cfg_l) = with_limit("var-limit", l, via, &direct);
                v.push(mk(doc, 1000, if via { 1024 } else { cfg_l }, 100, if ok { Some(1) } else { None }, format!("var:reuse-attr:L={l}:len={n}:{}", if via { "config-element" } else { "config" })));
                let expanded = format!("<var a=\"{}\"/>{tpl}<reuse href=\"#t\" m=\"${{a}}${{a}}\"/>", "d".repeat(n / 2));
                let (doc, cfg_l) = with_limit("var-limit", l, via, &expanded);
                v.push(mk(doc, 1000, if via { 1024 } else { cfg_l }, 100, if len2 <= l as usize { Some(1) } else { None }, format!("var:reuse-attr-expanded:L={l}:len={len2}:{}", if via { "config-element" } else { "config" })));
            }
        }
        // growth by self-concatenation in a loop: length doubles every pass
        for k in 0..12u32 {
            let len = 1usize << k;
            if len > 4 * l as usize + 4 {
                break;
            }
            let doc = format!("<svg><var s=\"a\"/><loop count=\"{k}\"><var s=\"$s$s\"/></loop><text class=\"body\" text=\"done\"/></svg>");
            v.push(mk(doc, 1000, l, 100, if len <= l as usize { Some(1) } else { None }, format!("var:doubling:L={l}:len={len}")));
        }
    }
    v
}

const CONTAINERS: [(&str, &str); 9] = [
    ("g", ""),
    ("a", " href=\"#x\""),
    ("defs", ""),
    ("svg", ""),
    ("symbol", ""),
    ("loop", " count=\"1\""),
    ("if", " test=\"1\""),
    ("for", " data=\"1\" var=\"q\""),
    ("switch", ""),
];

/// a document whose deepest element sits at nesting depth `depth` (the root <svg> is depth 1)
/// `leaf`: 0 an empty-element tag, 1 a text element with content, 2 the same shape as a start/end tag pair, 3 that pair with
/// white space between (each is one element at one level of nesting)
fn nested_doc(depth: usize, kinds: &[u8], leaf: u8) -> String {
    // depth = 1 (svg) + number of containers + 1 (leaf)
    let n = depth.saturating_sub(2);
    let mut open = String::new();
    let mut close = String::new();
    for i in 0..n {
        let (name, attrs) = CONTAINERS[kinds[i % kinds.len().max(1)] as usize % CONTAINERS.len()];
        open.push_str(&format!("<{name}{attrs}>"));
        close = format!("</{name}>{close}");
    }
    let leaf = if depth < 2 {
        String::new()
    } else {
        match leaf {
            1 => "<text class=\"body\" xy=\"0 0\">leaf</text>".to_string(),
            2 => "<rect class=\"body\" wh=\"1\"></rect>".to_string(),
            3 => "<rect class=\"body\" wh=\"1\">\n </rect>".to_string(),
            _ => BODY.to_string(),
        }
    };
    format!("<svg>{open}{leaf}{close}</svg>")
}

fn rendered_leaf(kinds: &[u8], n: usize) -> bool {
    // content of defs / symbol is still emitted (it is part of the document), so the leaf is always in the output
    let _ = (kinds, n);
    true
}

fn depth_cases(tier: Tier) -> Vec<Case> {
    let mut v = Vec::new();
    // (limits above the default can be asked for as well, through the configuration or a <config> element)
    let ds: Vec<u32> = if tier == Tier::Quick { vec![2, 3, 5, 17, 100, 120] } else { (2..=40).chain([64, 100, 120, 150]).collect() };
    for &d in &ds {
        for delta in [-1i64, 0, 1] {
            let depth = (d as i64 + delta) as usize;
            if depth < 2 {
                continue;
            }
            for k in 0..CONTAINERS.len() as u8 {
                for (via, leaf) in [(false, 0u8), (true, 1), (false, 2), (true, 3), (false, 1), (true, 0)] {
                    let kinds = [k];
                    let body = nested_doc(depth, &kinds, leaf);
                    let inner = body.strip_prefix("<svg>").unwrap().strip_suffix("</svg>").unwrap().to_string();
                    let (doc, cfg_d) = with_limit("depth-limit", d, via, &inner);
                    let ok = depth <= d as usize;
                    let _ = rendered_leaf(&kinds, depth);
                    v.push(mk(doc, 1000, 1024, if via { 100 } else { cfg_d }, if ok { Some(1) } else { None }, format!("depth:{}:D={d}:nesting={depth}:{}:leaf{leaf}", CONTAINERS[k as usize].0, if via { "config-element" } else { "config" })));
                }
            }
        }
        // text with tspan children is a container too
        for delta in [-1i64, 0, 1] {
            let depth = (d as i64 + delta) as usize;
            if depth < 3 {
                continue;
            }
            let n = depth - 3;
            let doc = format!("<svg>{}<text class=\"body\" xy=\"0 0\"><tspan>a</tspan><tspan>b</tspan></text>{}</svg>", "<g>".repeat(n), "</g>".repeat(n));
            v.push(mk(doc, 1000, 1024, d, if depth <= d as usize { Some(1) } else { None }, format!("depth:text-tspan:D={d}:nesting={depth}")));
        }
    }
    // reuse: unbounded recursion is rejected, shallow chains are accepted
    for d in [5u32, 17, 100] {
        v.push(mk("<svg><specs><g id=\"r\"><rect class=\"body\" wh=\"1\"/><reuse href=\"#r\"/></g></specs><reuse href=\"#r\"/></svg>".into(), 1000, 1024, d, None, format!("depth:reuse-self-recursion:D={d}")));
        v.push(mk("<svg><g id=\"p\"><reuse href=\"#q\"/></g><g id=\"q\"><reuse href=\"#p\"/></g></svg>".into(), 1000, 1024, d, None, format!("depth:reuse-mutual-recursion:D={d}")));
    }
    for chain in 1..4usize {
        let mut specs = String::from("<specs><rect id=\"t0\" class=\"body\" wh=\"1\"/>");
        for i in 1..=chain {
            specs.push_str(&format!("<g id=\"t{i}\"><reuse href=\"#t{}\"/></g>", i - 1));
        }
        specs.push_str("</specs>");
        v.push(mk(format!("<svg>{specs}<reuse href=\"#t{chain}\"/></svg>"), 1000, 1024, 100, Some(1), format!("depth:reuse-chain:{chain}")));
    }
    v
}

fn flat_cases(tier: Tier) -> Vec<Case> {
    let mut v = Vec::new();
    let ns: Vec<usize> = if tier == Tier::Quick { vec![50, 99, 100, 101, 500, 2000] } else { vec![50, 99, 100, 101, 250, 500, 5000, 20000] };
    let kinds: [(&str, &str, usize); 12] = [
        ("text-content", "<text class=\"body\" xy=\"0 0\">a</text>", 1),
        ("text-tspan", "<text class=\"body\" xy=\"0 0\"><tspan>a</tspan></text>", 1),
        ("empty-defs", "<defs></defs><rect class=\"body\" wh=\"1\"/>", 1),
        ("defs-gradient", "<defs><linearGradient><stop offset=\"1\"/></linearGradient></defs><rect class=\"body\" wh=\"1\"/>", 1),
        ("g", "<g><rect class=\"body\" wh=\"1\"/></g>", 1),
        ("empty-g", "<g/><rect class=\"body\" wh=\"1\"/>", 1),
        ("a", "<a href=\"#\"><rect class=\"body\" wh=\"1\"/></a>", 1),
        ("rect", BODY, 1),
        ("title", "<title>t</title><rect class=\"body\" wh=\"1\"/>", 1),
        ("loop", "<loop count=\"2\"><rect class=\"body\" wh=\"1\"/></loop>", 2),
        ("if", "<if test=\"1\"><rect class=\"body\" wh=\"1\"/></if>", 1),
        ("var-then-rect", "<var q=\"1\"/><rect class=\"body\" wh=\"$q\"/>", 1),
    ];
    // siblings that each fail once (forward reference) and are retried: failed attempts are not nesting either
    for &n in &ns {
        if n > 2000 {
            continue;
        }
        for dl in [100u32, 6] {
            let doc = format!("<svg>{}<rect id=\"late\" xy=\"5 5\" wh=\"2\"/></svg>", "<rect class=\"body\" xy=\"#late|h 1\" wh=\"1\"/>".repeat(n));
            v.push(mk(doc, 1000, 1024, dl, Some(n), format!("flat:forward-refs:N={n}:nest=1:D={dl}")));
            let doc = format!("<svg>{}<rect id=\"late\" xy=\"5 5\" wh=\"2\"/></svg>", "<g><rect class=\"body\" xy=\"#late|v 1\" wh=\"1\"/></g>".repeat(n));
            v.push(mk(doc, 1000, 1024, dl, Some(n), format!("flat:forward-refs-in-groups:N={n}:nest=2:D={dl}")));
        }
    }
    for &n in &ns {
        for (name, el, bodies) in kinds {
            for nest in 1..=3usize {
                for dl in [100u32, 6] {
                    if n > 2000 && (nest > 1 || dl != 100) {
                        continue;
                    }
                    let open = "<g>".repeat(nest - 1);
                    let close = "</g>".repeat(nest - 1);
                    let doc = format!("<svg>{open}{}{close}</svg>", el.repeat(n));
                    v.push(mk(doc, 1000, 1024, dl, Some(n * bodies), format!("flat:{name}:N={n}:nest={nest}:D={dl}")));
                }
            }
        }
    }
    v
}

fn fam_mixed(_t: Tier) -> BoxedStrategy<Case> {
    // random mixtures of container kinds at the depth boundary
    (2u32..30, -1i64..=1, vec(0u8..9, 1..8), 0u8..4)
        .prop_map(|(d, delta, kinds, text)| {
            let depth = ((d as i64 + delta).max(2)) as usize;
            let doc = nested_doc(depth, &kinds, text);
            mk(doc, 1000, 1024, d, if depth <= d as usize { Some(1) } else { None }, format!("depth:mixed:D={d}:nesting={depth}"))
        })
        .boxed()
}

impl Property for C17 {
    type Case = Case;
    fn id(&self) -> &'static str {
        "C17"
    }
    fn rule(&self) -> String {
        "bounded-exhaustive boundary triples: for every limit value L in {0|1, 2, 3, 5, 17, default} (thorough: every L <= 40) and every form - loops (count, count with loop-var, while, until, for, nested), variable values (given directly - ASCII and 2-, 3-, 4-byte characters -, by concatenation, by doubling in a loop), nesting depth (9 container kinds, text with tspans, random mixtures; reuse self- and mutual recursion; shallow reuse chains) - documents at L-1, L and L+1, with the limit set by configuration and by a <config> element; \
         plus the length family: flat documents of N in {50, 99, 100, 101, 500, 2000 (thorough: up to 20000)} siblings of 12 element kinds at nesting 1-3 under depth-limit 100 and 6, and of N siblings that each hold a forward reference (failed attempts are retried). \
         Oracle (two-sided): within the limit the transform is Ok and renders exactly the requested number of bodies (nothing truncated); beyond it the transform fails (never Ok, never a crash); flat documents are always Ok. \
         Non-trivial = every case (each is a boundary or length probe); distinct by hash of the case."
            .into()
    }
    fn assumptions(&self) -> Vec<String> {
        vec!["the exact depth accounting of <reuse> is not pinned down: only 'unbounded recursion is rejected, shallow chains are accepted'".into(), "nesting depth counts every element incl. the root <svg> (= 1), as the error messages report it".into()]
    }
    fn crash_is_violation(&self) -> bool {
        true
    }
    fn families(&self, tier: Tier) -> Vec<Family<Case>> {
        vec![
            Family::enumerated("loop-limit", loop_cases(tier)),
            Family::enumerated("var-limit", var_cases(tier)),
            Family::enumerated("depth-limit", depth_cases(tier)),
            Family::enumerated("flat-length", flat_cases(tier)),
            Family::random("depth-mixed", tier.n(6_000, 60_000), fam_mixed),
        ]
    }
    /// the same boundary documents through the svgdx command, the limits given by its options
    fn parent_phase(&self, tier: Tier, _seed: u64) -> crate::engine::ParentPhase {
        use crate::props::frontends::{run_cli, run_dir, CLI_BIN};
        let mut pp = crate::engine::ParentPhase::default();
        if !std::path::Path::new(CLI_BIN).exists() {
            pp.failures.push(("machinery:no-binaries".into(), format!("{CLI_BIN} missing: run ./run.sh setup"), serde_json::json!({})));
            return pp;
        }
        let dir = run_dir("c17");
        let d = Cfg::default();
        // only the cases whose limit is handed over by configuration (not by a <config> element): that is what the options carry
        let all: Vec<Case> = loop_cases(tier).into_iter().chain(var_cases(tier)).chain(depth_cases(tier)).filter(|c| c.loop_limit != d.loop_limit || c.var_limit != d.var_limit || c.depth_limit != d.depth_limit).collect();
        let want = tier.n(240, 1500);
        let step = (all.len() / want).max(1);
        for (i, case) in all.iter().enumerate().filter(|(i, _)| i % step == 0) {
            let cfg = Cfg { loop_limit: case.loop_limit, var_limit: case.var_limit, depth_limit: case.depth_limit, add_auto_styles: false, ..Cfg::default() };
            let inp = dir.join(format!("d{i}.xml"));
            if std::fs::write(&inp, &case.doc).is_err() {
                continue;
            }
            let mut args = cfg.cli_args();
            args.push(inp.to_string_lossy().to_string());
            let r = run_cli(&args, None, &dir, 60.0);
            let _ = std::fs::remove_file(&inp);
            pp.evaluations += 1;
            pp.nontrivial_hashes.push(crate::engine::hash_bytes(case.doc.as_bytes()) ^ (case.loop_limit as u64) << 40 ^ (case.var_limit as u64) << 20 ^ case.depth_limit as u64);
            let accepted = r.code == Some(0);
            let kind = case.what.split(':').take(2).collect::<Vec<_>>().join(":");
            if r.signal.is_some() || r.timed_out {
                pp.failures.push((format!("c17:cli:died:{kind}"), format!("{}: svgdx {} died (signal {:?}, timed out {})", case.what, args.join(" "), r.signal, r.timed_out), serde_json::json!({"doc": case.doc, "args": args})));
            } else if accepted != case.expect_bodies.is_some() && pp.failures.len() < 3 {
                pp.failures.push((
                    format!("c17:cli:{}:{kind}", if accepted { "accepted-beyond-limit" } else { "rejected-within-limits" }),
                    format!("{}: svgdx {} exited {:?}; the document is {} its limits\n--- stderr ---\n{}\n--- document ---\n{}", case.what, args[..args.len() - 1].join(" "), r.code, if case.expect_bodies.is_some() { "within" } else { "beyond" }, crate::run::trunc(&String::from_utf8_lossy(&r.stderr), 400), crate::run::trunc(&case.doc, 1500)),
                    serde_json::json!({"doc": case.doc, "args": args}),
                ));
            }
        }
        pp.labels.push("cli:limit-options".into());
        let _ = std::fs::remove_dir_all(&dir);
        pp
    }
    fn judge(&self, case: &Case, _strict: bool) -> Verdict {
        let cfg = Cfg { loop_limit: case.loop_limit, var_limit: case.var_limit, depth_limit: case.depth_limit, add_auto_styles: false, ..Cfg::default() };
        let r = transform(&case.doc, &cfg);
        let kind = case.what.split(':').take(2).collect::<Vec<_>>().join(":");
        let labels = vec![format!("kind:{kind}")];
        let shown = crate::run::trunc(&case.doc, 600);
        match (&case.expect_bodies, r) {
            (_, Outcome::Panic(l, m)) => Verdict::fail(format!("c17:panic:{l}"), format!("{m}\n{}", case.what), labels, 1),
            (Some(n), Outcome::Ok(out)) => {
                let count = match sxml::parse_tree(&out) {
                    Ok(t) => t.descendants().iter().filter(|e| e.has_class("body")).count(),
                    Err(e) => return Verdict::fail("c17:output-illformed", e.to_string(), labels, 1),
                };
                if count == *n {
                    Verdict::pass(true, labels, 1)
                } else {
                    Verdict::fail(format!("c17:truncated-or-extra:{kind}"), format!("{}: expected {n} rendered bodies, output has {count}\n--- document ---\n{shown}", case.what), labels, 1)
                }
            }
            (Some(n), Outcome::Err(k, m)) => Verdict::fail(
                format!("c17:rejected-within-limits:{kind}"),
                format!("{}: the document is within its limits ({n} bodies expected) but was rejected: [{k}] {}\n--- limits: loop {} var {} depth {} ---\n--- document ---\n{shown}", case.what, crate::run::trunc(&m, 300), case.loop_limit, case.var_limit, case.depth_limit),
                labels,
                1,
            ),
            (None, Outcome::Ok(out)) => Verdict::fail(
                format!("c17:accepted-beyond-limit:{kind}"),
                format!("{}: the document exceeds a limit but was accepted\n--- limits: loop {} var {} depth {} ---\n--- document ---\n{shown}\n--- output ---\n{}", case.what, case.loop_limit, case.var_limit, case.depth_limit, crate::run::trunc(&out, 800)),
                labels,
                1,
            ),
            (None, Outcome::Err(..)) => Verdict::pass(true, labels, 1),
        }
    }
}
