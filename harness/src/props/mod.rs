use crate::engine::{entry, DynProperty};

pub mod c02;
pub mod selftest;

pub fn registry() -> Vec<Box<dyn DynProperty>> {
    vec![entry(c02::C02)]
}
