use crate::engine::{entry, DynProperty};

pub mod c01;
pub mod c02;
pub mod c03;
pub mod c04;
pub mod c05;
pub mod c06;
pub mod c07;
pub mod c08;
pub mod c09;
pub mod c10;
pub mod c11;
pub mod c12;
pub mod c13;
pub mod c14;
pub mod c15;
pub mod c16;
pub mod c17;
pub mod c18;
pub mod c19;
pub mod c20;
pub mod union;
pub mod frontends;
pub mod selftest;

pub fn registry() -> Vec<Box<dyn DynProperty>> {
    vec![entry(c01::C01), entry(c02::C02), entry(c03::C03), entry(c04::C04), entry(c05::C05), entry(c06::C06), entry(c07::C07), entry(c08::C08), entry(c09::C09), entry(c10::C10), entry(c11::C11), entry(c12::C12), entry(c13::C13), entry(c14::C14), entry(c15::C15), entry(c16::C16), entry(c17::C17), entry(c18::C18), entry(c19::C19), entry(c20::C20)]
}
