//! C07 Front-ends agree, transforms are isolated, and failures leave no damage.

use crate::engine::{Family, Property, Tier, Verdict};
use crate::gen::{self, DocOpts, XEl};
use crate::props::frontends::{http_post, run_cli, Server, CLI_BIN, SERVER_BIN};
use crate::run::{transform, ByteOutcome, Cfg, Outcome};
use proptest::collection::vec;
use proptest::prelude::*;
use serde::{Deserialize, Serialize};
use std::collections::HashMap;
use std::path::PathBuf;
use std::sync::{Mutex, OnceLock};
use std::time::Duration;

pub struct C07;

#[derive(Clone, Copy, Debug, PartialEq, Eq, Serialize, Deserialize)]
pub enum Fe {
    LibStr,
    LibStream,
    CliFileFile,
    CliFileStdout,
    CliStdinFile,
    CliStdinStdout,
    Server,
}

#[derive(Clone, Debug, Serialize, Deserialize)]
pub struct Req {
    pub fe: Fe,
    pub doc: usize,
    pub cfg: usize,
    /// size of the pre-existing content of the output file (file-writing front-ends)
    pub prefill: u32,
    /// the input file named on the command line does not exist (file-reading command front-ends): a failed transform
    #[serde(default)]
    pub missing: bool,
}

#[derive(Clone, Debug, Serialize, Deserialize)]
pub struct Case {
    pub docs: Vec<String>,
    pub cfgs: Vec<Cfg>,
    pub reqs: Vec<Req>,
    /// same-file spellings to try for docs[0] (0 = none)
    pub samefile: u8,
    pub concurrent: bool,
}

fn doc_strategy() -> impl Strategy<Value = String> {
    prop_oneof![
        4 => gen::docgen(DocOpts { random_fns: true, ..DocOpts::all() }, 8, gen::benign_text().boxed()),
        2 => (gen::nice(30), gen::nice_pos(20)).prop_map(|(x, w)| gen::svg_root(vec![
            XEl::new("rect").a("xy", format!("{} {{{{randint(0, 50)}}}}", crate::run::num(x))).a("wh", crate::run::num(w)).a("text", "{{random()}}"),
            XEl::new("circle").a("cxy", "^@br").a("r", "{{1 + random() * 5}}"),
        ]).to_xml()),
        3 => (0u8..7).prop_map(|k| match k {
            0 => "<svg><rect xy=\"#nope|h\" wh=\"3\"/></svg>".to_string(),
            1 => "<svg><rect wh=\"{{1 +}}\"/></svg>".to_string(),
            2 => "<svg><loop while=\"1\"><rect wh=\"1\"/></loop></svg>".to_string(),
            3 => "<svg><rect wh=\"3\"></svg>".to_string(),
            // failures that only show once the whole document has been laid out and the prolog written
            5 => "<!-- diagram: draft -->\n<svg width=\"wide\">\n  <rect wh=\"20 10\" text=\"broken\"/>\n</svg>".to_string(),
            6 => "<?xml version=\"1.0\"?>\n<?keep this?>\n<svg height=\"1e\"><rect wh=\"4\"/></svg>".to_string(),
            _ => "<svg><reuse href=\"#missing\"/><rect id=\"a\" xy=\"#b|h\" wh=\"2\"/><rect id=\"b\" xy=\"#a|h\" wh=\"2\"/></svg>".to_string(),
        }),
        1 => (10usize..400).prop_map(|n| {
            let mut kids = Vec::new();
            for i in 0..n {
                kids.push(XEl::new("rect").a("xy", format!("{} {}", (i % 20) * 12, (i / 20) * 12)).a("wh", "10").a("text", format!("cell {i}")).a("class", "d-fill-lightblue d-softshadow"));
            }
            gen::svg_root(kids).to_xml()
        }),
        // everything on one line, without a final newline: the output's last line is longer than any line buffer
        1 => (20usize..300).prop_map(|n| {
            let mut kids = Vec::new();
            for i in 0..n {
                kids.push(XEl::new("rect").a("xy", format!("{} {}", (i % 20) * 12, (i / 20) * 12)).a("wh", "10").a("class", "d-fill-lightblue"));
            }
            gen::svg_root(kids).to_xml_compact()
        }),
        1 => Just("<rect wh=\"5\" text=\"fragment\"/>".to_string()),
    ]
}

fn fe_strategy() -> impl Strategy<Value = Fe> {
    prop_oneof![
        2 => Just(Fe::LibStr),
        2 => Just(Fe::LibStream),
        2 => Just(Fe::CliFileFile),
        1 => Just(Fe::CliFileStdout),
        2 => Just(Fe::CliStdinFile),
        1 => Just(Fe::CliStdinStdout),
        3 => Just(Fe::Server),
    ]
}

fn fam_history(t: Tier) -> BoxedStrategy<Case> {
    let maxreq = if t == Tier::Quick { 24 } else { 40 };
    (vec(doc_strategy(), 2..5), vec(gen::cfg_benign(), 1..4), vec((fe_strategy(), any::<u8>(), any::<u8>(), prop_oneof![Just(0u32), Just(20u32), 1000u32..200_000]), 5..maxreq), 0u8..32, any::<bool>())
        .prop_map(|(docs, mut cfgs, reqs, samefile, concurrent)| {
            // first config is the server's config family (defaults + add_metadata)
            cfgs[0] = Cfg { add_metadata: cfgs[0].add_metadata, ..Cfg::default() };
            let nd = docs.len();
            let nc = cfgs.len();
            let reqs = reqs
                .into_iter()
                .map(|(fe, d, c, prefill)| Req { fe, doc: (d as usize * nd) >> 8, cfg: if fe == Fe::Server { 0 } else { (c as usize * nc) >> 8 }, prefill, missing: matches!(fe, Fe::CliFileFile | Fe::CliFileStdout) && c % 8 == 3 })
                .collect();
            Case { docs, cfgs, reqs, samefile, concurrent }
        })
        .boxed()
}

// --------------------------------------------------------------------------- execution

struct State {
    dir: PathBuf,
    server: Option<Server>,
    counter: usize,
}

fn state() -> &'static Mutex<State> {
    static S: OnceLock<Mutex<State>> = OnceLock::new();
    S.get_or_init(|| {
        let dir = crate::props::frontends::run_dir("c07");
        Mutex::new(State { dir, server: None, counter: 0 })
    })
}

#[derive(Clone, Debug, PartialEq)]
enum Ref {
    Ok(Vec<u8>),
    Fail,
}

/// Reference result: one transform in a fresh process (file -> stdout).
fn reference(dir: &PathBuf, doc: &str, cfg: &Cfg, uniq: usize) -> Result<Ref, String> {
    let inp = dir.join(format!("ref{uniq}.xml"));
    std::fs::write(&inp, doc).map_err(|e| e.to_string())?;
    let mut args = cfg.cli_args();
    args.push(inp.to_string_lossy().to_string());
    let r = run_cli(&args, None, dir, 60.0);
    let _ = std::fs::remove_file(&inp);
    match (r.code, r.signal) {
        (Some(0), None) => Ok(Ref::Ok(r.stdout)),
        (Some(_), None) => Ok(Ref::Fail),
        (_, sig) => Err(format!("reference process died: signal {sig:?}")),
    }
}

struct Obs {
    ok: bool,
    bytes: Vec<u8>,
    note: String,
}

fn exec(req: &Req, doc: &str, cfg: &Cfg, dir: &PathBuf, port: u16, uniq: usize, expect: &Ref) -> Result<(), (String, String)> {
    fn failure<T>(fe: Fe, clause: &str, msg: String) -> Result<T, (String, String)> {
        Err((format!("c07:{:?}:{clause}", fe), msg))
    }
    let fe = req.fe;
    let fail = |clause: &str, msg: String| failure::<()>(fe, clause, msg);
    let obs: Obs = match req.fe {
        Fe::LibStr => match transform(doc, cfg) {
            Outcome::Ok(s) => Obs { ok: true, bytes: s.into_bytes(), note: String::new() },
            Outcome::Err(k, m) => Obs { ok: false, bytes: vec![], note: format!("{k}: {m}") },
            Outcome::Panic(l, m) => return fail("panic", format!("{l}: {m}")),
        },
        Fe::LibStream => match crate::run::transform_bytes_written(doc.as_bytes(), cfg) {
            (ByteOutcome::Ok(b), _) => Obs { ok: true, bytes: b, note: String::new() },
            // (the string function and the command's file output give nothing for a failed transform: so must the stream)
            (ByteOutcome::Err(k, m), n) if n > 0 => return fail("partial-output-on-failure", format!("failed ({k}: {m}) after writing {n} bytes to the stream")),
            (ByteOutcome::Err(k, m), _) => Obs { ok: false, bytes: vec![], note: format!("{k}: {m}") },
            (ByteOutcome::Panic(l, m), _) => return fail("panic", format!("{l}: {m}")),
        },
        Fe::Server => {
            let path = format!("/api/transform?add_metadata={}", cfg.add_metadata);
            match http_post(port, &path, doc.as_bytes(), Duration::from_secs(120)) {
                Ok(r) => {
                    if r.status == 200 {
                        if !r.content_type.starts_with("image/svg+xml") {
                            return fail("content-type", format!("200 with content-type {}", r.content_type));
                        }
                        Obs { ok: true, bytes: r.body, note: String::new() }
                    } else if r.status == 400 {
                        if !r.content_type.starts_with("text/plain") {
                            return fail("content-type", format!("400 with content-type {}", r.content_type));
                        }
                        Obs { ok: false, bytes: vec![], note: String::from_utf8_lossy(&r.body).to_string() }
                    } else {
                        return fail("status", format!("unexpected HTTP status {}", r.status));
                    }
                }
                Err(e) => return fail("no-response", e),
            }
        }
        Fe::CliFileFile | Fe::CliFileStdout | Fe::CliStdinFile | Fe::CliStdinStdout => {
            let from_file = matches!(req.fe, Fe::CliFileFile | Fe::CliFileStdout);
            let to_file = matches!(req.fe, Fe::CliFileFile | Fe::CliStdinFile);
            let inp = dir.join(format!("in{uniq}.xml"));
            let outp = dir.join(format!("out{uniq}.svg"));
            let mut args = cfg.cli_args();
            if from_file {
                if req.missing {
                    let _ = std::fs::remove_file(&inp);
                } else {
                    std::fs::write(&inp, doc).map_err(|e| ("machinery".to_string(), e.to_string()))?;
                }
                args.push(inp.to_string_lossy().to_string());
            } else {
                args.push("-".into());
            }
            let previous: Option<Vec<u8>> = if to_file && req.prefill > 0 {
                let mut v = format!("PREVIOUS CONTENT {uniq}\n").into_bytes();
                while v.len() < req.prefill as usize {
                    v.extend_from_slice(b"<!-- stale stale stale stale stale stale stale stale -->\n");
                }
                std::fs::write(&outp, &v).map_err(|e| ("machinery".to_string(), e.to_string()))?;
                Some(v)
            } else {
                None
            };
            if to_file {
                args.push("-o".into());
                args.push(outp.to_string_lossy().to_string());
            }
            let r = run_cli(&args, if from_file { None } else { Some(doc.as_bytes()) }, dir, 60.0);
            let res = (|| {
                if r.signal.is_some() || r.timed_out {
                    return failure::<Obs>(fe, "died", format!("signal {:?} timed_out {}", r.signal, r.timed_out));
                }
                let ok = r.code == Some(0);
                if ok {
                    let bytes = if to_file {
                        if !r.stdout.is_empty() {
                            return failure::<Obs>(fe, "stdout-not-empty", "wrote to stdout although -o was given".into());
                        }
                        match std::fs::read(&outp) {
                            Ok(b) => b,
                            Err(e) => return failure::<Obs>(fe, "no-output-file", e.to_string()),
                        }
                    } else {
                        r.stdout.clone()
                    };
                    Ok(Obs { ok: true, bytes, note: String::new() })
                } else {
                    if r.stderr.is_empty() {
                        return failure::<Obs>(fe, "no-message", format!("exit {:?} without a message on stderr", r.code));
                    }
                    if !r.stdout.is_empty() {
                        return failure::<Obs>(fe, "stdout-on-failure", format!("failed run wrote {} bytes to stdout", r.stdout.len()));
                    }
                    if to_file {
                        match (&previous, std::fs::read(&outp)) {
                            (Some(p), Ok(now)) if *p == now => {}
                            (Some(_), Ok(now)) => return failure::<Obs>(fe, "output-file-damaged", format!("failed run changed the existing output file (now {} bytes)", now.len())),
                            (Some(_), Err(_)) => return failure::<Obs>(fe, "output-file-damaged", "failed run removed the existing output file".into()),
                            (None, Ok(now)) => return failure::<Obs>(fe, "output-file-created", format!("failed run created an output file of {} bytes", now.len())),
                            (None, Err(_)) => {}
                        }
                    }
                    Ok(Obs { ok: false, bytes: vec![], note: String::from_utf8_lossy(&r.stderr).chars().take(200).collect() })
                }
            })();
            let _ = std::fs::remove_file(&inp);
            let _ = std::fs::remove_file(&outp);
            res?
        }
    };
    let missing_input = Ref::Fail;
    let expect = if req.missing && matches!(req.fe, Fe::CliFileFile | Fe::CliFileStdout) { &missing_input } else { expect };
    match (expect, obs.ok) {
        (Ref::Ok(want), true) => {
            if req.fe == Fe::Server && want.is_empty() {
                return Ok(()); // documented: the server refuses to send an empty image
            }
            if &obs.bytes == want {
                Ok(())
            } else {
                let pos = obs.bytes.iter().zip(want.iter()).position(|(a, b)| a != b).unwrap_or(obs.bytes.len().min(want.len()));
                fail("bytes-differ", format!("{} bytes vs reference {} bytes, first difference at byte {pos}", obs.bytes.len(), want.len()))
            }
        }
        (Ref::Ok(want), false) => {
            if req.fe == Fe::Server && want.is_empty() {
                return Ok(());
            }
            fail("failed-but-reference-ok", format!("front-end reported failure ({}) but the reference transform succeeded", obs.note))
        }
        (Ref::Fail, true) => fail("ok-but-reference-failed", format!("front-end produced {} bytes but the reference transform failed", obs.bytes.len())),
        (Ref::Fail, false) => Ok(()),
    }
}

fn samefile_checks(dir: &PathBuf, doc: &str, mask: u8, uniq: usize) -> Result<usize, (String, String)> {
    let mut n = 0;
    let sub = dir.join(format!("sf{uniq}"));
    let _ = std::fs::remove_dir_all(&sub);
    std::fs::create_dir_all(sub.join("d")).map_err(|e| ("machinery".to_string(), e.to_string()))?;
    let f = sub.join("f.xml");
    std::fs::write(&f, doc).map_err(|e| ("machinery".to_string(), e.to_string()))?;
    // (bit, name, input spelling, output spelling)
    let spellings: Vec<(u8, &str, &str, String)> = vec![
        (1, "same-path", "f.xml", "f.xml".into()),
        (2, "dot-slash", "f.xml", "./f.xml".into()),
        (4, "absolute", "f.xml", f.to_string_lossy().to_string()),
        (8, "dotdot", "f.xml", "d/../f.xml".into()),
        (16, "symlink", "f.xml", "sym.xml".into()),
        (32, "hardlink", "f.xml", "hard.xml".into()),
        // combinations: each single mechanism (inode comparison, path canonicalisation) has to see through the other
        (32, "symlink-to-hardlink", "f.xml", "symhard.xml".into()),
        (32, "symlink-chain", "f.xml", "sym2.xml".into()),
        (32, "input-symlink-output-hardlink", "sym.xml", "hard.xml".into()),
        (32, "input-hardlink-output-symlink-in-dir", "hard.xml", "d/symup.xml".into()),
    ];
    let _ = std::os::unix::fs::symlink(&f, sub.join("sym.xml"));
    let _ = std::fs::hard_link(&f, sub.join("hard.xml"));
    let _ = std::os::unix::fs::symlink("hard.xml", sub.join("symhard.xml"));
    let _ = std::os::unix::fs::symlink("sym.xml", sub.join("sym2.xml"));
    let _ = std::os::unix::fs::symlink("../f.xml", sub.join("d").join("symup.xml"));
    for (bit, name, inp, out) in spellings {
        // bit 32 does not fit the generated mask range 0..32: hard link rides on bit 16 as well
        let on = if bit == 32 { mask & 16 != 0 } else { mask & bit != 0 };
        if !on {
            continue;
        }
        n += 1;
        let r = run_cli(&[inp.to_string(), "-o".to_string(), out.clone()], None, &sub, 60.0);
        let now = std::fs::read(&f).unwrap_or_default();
        if now != doc.as_bytes() {
            let _ = std::fs::remove_dir_all(&sub);
            return Err((format!("c07:samefile:{name}:input-overwritten"), format!("svgdx {inp} -o {out} changed the input file (exit {:?})", r.code)));
        }
        if r.code == Some(0) {
            let _ = std::fs::remove_dir_all(&sub);
            return Err((format!("c07:samefile:{name}:not-refused"), format!("svgdx {inp} -o {out} exited 0 although the output is the input file")));
        }
    }
    let _ = std::fs::remove_dir_all(&sub);
    Ok(n)
}

impl Property for C07 {
    type Case = Case;
    fn id(&self) -> &'static str {
        "C07"
    }
    fn rule(&self) -> String {
        "cases = histories: 5-40 requests (front-end, document, config) over a small per-history pool of documents (succeeding, failing early and failing only after output has been started, random-function, large, fragment) and configs, front-ends = transform_str, transform_stream, svgdx file->file, file->stdout, stdin->file, stdin->stdout, POST /api/transform on a server process that lives across cases; \
         each history is executed sequentially and (half of them) again in concurrent batches of 8 (library threads, parallel CLI processes writing into one directory, simultaneous connections to the one server). File-writing requests find a pre-existing output file (20 B .. 200 KB); one in eight file-reading command requests names an input file that does not exist (a failed transform: exit != 0 with a message); the same-file part spells the output as the input (same path, ./, absolute, d/../, symlink, hard link, and their combinations: a symlink to a hard link, a chain of symlinks, input through a symlink with output through a hard link and the reverse). \
         Oracle: reference R(doc,cfg) = one transform in a fresh process; every request's observable result equals R (bytes; exit 0 / 200 image/svg+xml) or, where R fails, is reported as failure (Err; exit != 0 with a message, empty stdout, pre-existing output byte-identical and no file created; 400 text/plain); same-file: exit != 0 and input unchanged. \
         Non-trivial = the history has >= 1 failing and >= 1 succeeding request, >= 2 front-ends and >= 2 distinct (doc,cfg) pairs; distinct by hash of the case."
            .into()
    }
    fn assumptions(&self) -> Vec<String> {
        vec![
            "the scheduler is not controlled: concurrent batches sample interleavings, they do not enumerate them".into(),
            "the server refuses empty output with 400 (documented in server.rs); such requests are not compared".into(),
            "--watch mode is not exercised".into(),
        ]
    }
    fn cpu_budget(&self) -> f64 {
        120.0
    }
    fn families(&self, tier: Tier) -> Vec<Family<Case>> {
        vec![Family::random("history", tier.n(400, 2500), fam_history)]
    }
    fn judge(&self, case: &Case, _strict: bool) -> Verdict {
        if !std::path::Path::new(CLI_BIN).exists() || !std::path::Path::new(SERVER_BIN).exists() {
            return Verdict::skip("machinery:no-binaries", vec![], 0);
        }
        let mut st = state().lock().unwrap();
        if st.server.as_mut().map(|s| !s.alive()).unwrap_or(true) {
            st.server = Server::start();
        }
        let port = match &st.server {
            Some(s) => s.port,
            None => return Verdict::skip("machinery:server-start", vec![], 0),
        };
        let dir = st.dir.clone();
        let base = st.counter;
        st.counter += case.reqs.len() * 3 + 100;
        drop(st);

        let mut evals = 0u32;
        let mut refs: HashMap<(usize, usize), Ref> = HashMap::new();
        for (k, r) in case.reqs.iter().enumerate() {
            if !refs.contains_key(&(r.doc, r.cfg)) {
                match reference(&dir, &case.docs[r.doc], &case.cfgs[r.cfg], base + k) {
                    Ok(x) => {
                        refs.insert((r.doc, r.cfg), x);
                    }
                    Err(e) => return Verdict::skip(format!("reference-crashed-is-C01:{e}"), vec![], evals),
                }
                evals += 1;
            }
        }
        let describe = |k: usize, r: &Req| format!("request #{k} {:?} doc={} cfg={}\n--- document ---\n{}\n--- config flags ---\n{:?}", r.fe, r.doc, r.cfg, crate::run::trunc(&case.docs[r.doc], 1500), case.cfgs[r.cfg].cli_args());
        // sequential execution
        for (k, r) in case.reqs.iter().enumerate() {
            evals += 1;
            if let Err((sig, msg)) = exec(r, &case.docs[r.doc], &case.cfgs[r.cfg], &dir, port, base + k, &refs[&(r.doc, r.cfg)]) {
                if sig == "machinery" {
                    return Verdict::skip(format!("machinery:{msg}"), vec![], evals);
                }
                return Verdict::fail(format!("{sig}:sequential"), format!("{msg}\n{}", describe(k, r)), vec![], evals);
            }
        }
        // concurrent execution in batches of 8
        if case.concurrent {
            let n = case.reqs.len();
            for (b, chunk) in case.reqs.chunks(8).enumerate() {
                let results: Vec<Result<(), (String, String)>> = std::thread::scope(|s| {
                    let hs: Vec<_> = chunk
                        .iter()
                        .enumerate()
                        .map(|(j, r)| {
                            let dir = &dir;
                            let refs = &refs;
                            let case = &case;
                            s.spawn(move || exec(r, &case.docs[r.doc], &case.cfgs[r.cfg], dir, port, base + n + b * 8 + j, &refs[&(r.doc, r.cfg)]))
                        })
                        .collect();
                    hs.into_iter().map(|h| h.join().unwrap_or_else(|_| Err(("c07:thread-panicked".into(), "request thread panicked".into())))).collect()
                });
                for (j, res) in results.into_iter().enumerate() {
                    evals += 1;
                    if let Err((sig, msg)) = res {
                        if sig == "machinery" {
                            return Verdict::skip(format!("machinery:{msg}"), vec![], evals);
                        }
                        return Verdict::fail(format!("{sig}:concurrent"), format!("{msg}\n{}", describe(b * 8 + j, &chunk[j])), vec![], evals);
                    }
                }
            }
        }
        // same-file refusal
        let mut sf = 0;
        if case.samefile != 0 {
            match samefile_checks(&dir, &case.docs[0], case.samefile, base) {
                Ok(n) => sf = n,
                Err((sig, msg)) => {
                    if sig == "machinery" {
                        return Verdict::skip(format!("machinery:{msg}"), vec![], evals);
                    }
                    return Verdict::fail(sig, msg, vec![], evals);
                }
            }
            evals += sf as u32;
        }
        let n_fail = case.reqs.iter().filter(|r| refs[&(r.doc, r.cfg)] == Ref::Fail).count();
        let n_ok = case.reqs.len() - n_fail;
        let fes: std::collections::HashSet<_> = case.reqs.iter().map(|r| format!("{:?}", r.fe)).collect();
        let mut labels: Vec<String> = fes.iter().map(|f| format!("fe:{f}")).collect();
        if case.concurrent {
            labels.push("concurrent".into());
        }
        if sf > 0 {
            labels.push("samefile".into());
        }
        if n_fail > 0 {
            labels.push("has-failing-request".into());
        }
        if case.reqs.iter().any(|r| r.prefill > 1000 && matches!(r.fe, Fe::CliFileFile | Fe::CliStdinFile)) {
            labels.push("large-preexisting-output".into());
        }
        Verdict::pass(n_fail > 0 && n_ok > 0 && fes.len() >= 2 && refs.len() >= 2, labels, evals)
    }
}
