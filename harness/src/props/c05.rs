//! C05 Output is a fixed point: re-processing svgdx output changes nothing.

use crate::engine::{Family, Property, Tier, Verdict};
use crate::gen::{self, DocOpts};
use crate::run::{transform, Cfg, Outcome};
use proptest::collection::vec;
use proptest::prelude::*;
use serde::{Deserialize, Serialize};

pub struct C05;

#[derive(Clone, Debug, Serialize, Deserialize)]
pub struct Case {
    pub input: String,
    pub c1: Cfg,
    pub c2: Cfg,
    pub fam: String,
}

fn cfg_any() -> impl Strategy<Value = Cfg> {
    prop_oneof![3 => gen::cfg_benign(), 1 => gen::cfg_hostile(), 1 => gen::cfg_small_limits()]
}

fn fam_hostile(_t: Tier) -> BoxedStrategy<Case> {
    (crate::props::c02::hostile_rooted_doc(), cfg_any(), cfg_any()).prop_map(|(input, c1, c2)| Case { input, c1, c2, fam: "hostile".into() }).boxed()
}

fn fam_docgen(_t: Tier) -> BoxedStrategy<Case> {
    let opts = DocOpts { random_fns: true, ..DocOpts::all() };
    (gen::docgen(opts, 12, prop_oneof![gen::benign_text(), gen::hostile_inert(3), Just("two\\nlines".to_string()), Just("  spaced  out  ".to_string())].boxed()), cfg_any(), cfg_any())
        .prop_map(|(input, c1, c2)| Case { input, c1, c2, fam: "docgen".into() })
        .boxed()
}

fn fam_union(t: Tier) -> BoxedStrategy<Case> {
    (crate::props::union::svgdx_docs(t), cfg_any(), cfg_any()).prop_map(|(input, c1, c2)| Case { input, c1, c2, fam: "union".into() }).boxed()
}

/// documents with a prolog (declaration, comments, processing instructions, a DOCTYPE with or without entity declarations, in
/// every order XML allows) and mixed content: CDATA sections next to character data, entity references in verbatim content
fn fam_prolog(_t: Tier) -> BoxedStrategy<Case> {
    (prolog_docs(), cfg_any(), cfg_any()).prop_map(|(input, c1, c2)| Case { input, c1, c2, fam: "prolog".into() }).boxed()
}

/// (shared with C02: the same documents must come out well-formed)
pub fn prolog_docs() -> BoxedStrategy<String> {
    const TEXTS: &[&str] = &["matrix[a[0]]&gt;1", "]]&gt;", "a &amp; b", "plain", " ]] &gt; ", "&#93;&#93;&#62;", "x]]", "&gt;"];
    const REFS: &[&str] = &["&proj;", "&amp;", "&proj;&proj;", "&#65;", "&other;"];
    (vec(0u8..4, 0..4), 0u8..3, any::<bool>(), vec((0u8..10, 0..TEXTS.len(), 0..TEXTS.len(), 0..REFS.len()), 1..5))
        .prop_map(|(pro, dt, decl, items)| {
            let doctype = match dt {
                1 => "<!DOCTYPE svg PUBLIC \"-//W3C//DTD SVG 1.1//EN\" \"http://www.w3.org/Graphics/SVG/1.1/DTD/svg11.dtd\">\n",
                2 => "<!DOCTYPE svg [\n  <!ENTITY proj \"Apollo\">\n]>\n",
                _ => "",
            };
            let mut s = String::new();
            if decl {
                s.push_str("<?xml version=\"1.0\" encoding=\"UTF-8\"?>\n");
            }
            // the DOCTYPE goes after the `at`-th of the other prolog items
            let at = pro.iter().position(|k| *k == 3).unwrap_or(pro.len());
            for (i, k) in pro.iter().enumerate() {
                if i == at {
                    s.push_str(doctype);
                }
                match k {
                    0 => s.push_str("<!-- Project diagram -->\n"),
                    1 => s.push_str("<?pi-before some data?>\n"),
                    2 => s.push_str("\n  \n"),
                    _ => {}
                }
            }
            if at == pro.len() {
                s.push_str(doctype);
            }
            s.push_str("<svg>\n");
            for (k, t, t2, r) in items {
                let (t, t2, r) = (TEXTS[t], TEXTS[t2], REFS[r]);
                s.push_str(&match k {
                    0 => format!("  <g><![CDATA[ note: ]]>{t}\n    <rect wh=\"20 10\" text=\"cell\"/>\n  </g>\n"),
                    1 => format!("  <title>{r} overview {t}</title>\n"),
                    2 => format!("  <desc>{t}<![CDATA[{}]]>{t2}</desc>\n", t2.replace("&gt;", " ")),
                    3 => format!("  <text xy=\"0 0\">{t} {r}</text>\n"),
                    4 => format!("  <g><rect wh=\"2\"/><![CDATA[x]]>{t}<circle r=\"1\"/>{t2}</g>\n"),
                    5 => format!("<![CDATA[lead]]>{t}\n  <rect wh=\"3\"/>\n"),
                    6 => format!("  <defs><![CDATA[ d ]]>{t}<rect id=\"d{}\" wh=\"1\"/></defs>\n", t.len()),
                    // elements of other vocabularies, with prefixed names and explicit end tags
                    8 => format!("  <metadata><cc:Work xmlns:cc=\"http://creativecommons.org/ns#\" xmlns:dc=\"http://purl.org/dc/elements/1.1/\"><dc:title>{t}</dc:title><dc:date></dc:date></cc:Work></metadata>\n"),
                    9 => format!("  <g><x:note xmlns:x=\"urn:x\" x:k=\"v\">{t}<x:b>{t2}</x:b></x:note><rect wh=\"4\"/></g>\n"),
                    _ => format!("  <style>{r} .a {{ fill: red; }} {t}</style>\n"),
                });
            }
            s.push_str("</svg>");
            s
        })
        .boxed()
}

fn corpus_cases() -> Vec<Case> {
    let alt = [
        Cfg { debug: true, add_metadata: true, theme: "dark".into(), ..Cfg::default() },
        Cfg { add_auto_styles: false, border: 0, scale: 2.5, ..Cfg::default() },
        Cfg { theme: "glass".into(), background: "lightgrey".into(), svg_style: Some("max-width: 100%".into()), ..Cfg::default() },
    ];
    let mut out = Vec::new();
    for (i, (_n, s)) in gen::corpus_strings().into_iter().enumerate() {
        out.push(Case { input: s.clone(), c1: Cfg::default(), c2: alt[i % 3].clone(), fam: "corpus".into() });
        out.push(Case { input: s, c1: alt[(i + 1) % 3].clone(), c2: Cfg::default(), fam: "corpus".into() });
    }
    out
}

fn interesting(y: &str) -> Vec<String> {
    let mut l = vec![];
    for (pat, name) in [("&", "entity"), ("<!--", "comment"), ("<![CDATA[", "cdata"), ("<tspan", "tspan"), ("<defs", "defs"), ("data-src-line", "metadata"), ("<style", "style"), ("<?", "pi")] {
        if y.contains(pat) {
            l.push(name.to_string());
        }
    }
    if !y.is_ascii() {
        l.push("non-ascii".into());
    }
    l
}

impl Property for C05 {
    type Case = Case;
    fn id(&self) -> &'static str {
        "C05"
    }
    fn rule(&self) -> String {
        "cases = (svgdx document x, config c1, config c2) with x from the union of the svgdx generators (hostile-string documents, DocGen with text/comments/loops/reuse/random functions, the per-property layout/text/style generators, documents with a prolog in every order and CDATA / entity references in mixed content) and the repository corpus; \
         c1, c2 drawn independently (debug, metadata, themes, borders, scales, hostile strings, small limits). Oracle: if T_c1(x) = Ok(y) and x's outermost element is <svg> then T_c2(y) = Ok(y') with y' == y byte for byte. \
         Non-trivial = y contains an entity reference, comment, CDATA, tspan, defs, style, metadata attribute or non-ASCII character; distinct by hash of the case."
            .into()
    }
    fn assumptions(&self) -> Vec<String> {
        vec!["documents on which T_c1 fails, and fragments without a root <svg>, are outside the property (skipped, counted)".into()]
    }
    fn families(&self, tier: Tier) -> Vec<Family<Case>> {
        let mut corpus = corpus_cases();
        if tier == Tier::Quick {
            corpus = corpus.into_iter().enumerate().filter(|(i, _)| i % 2 == 0).map(|(_, c)| c).collect();
        }
        vec![
            Family::random("hostile", tier.n(24_000, 120_000), fam_hostile),
            Family::random("docgen", tier.n(20_000, 100_000), fam_docgen),
            Family::random("union", tier.n(24_000, 120_000), fam_union),
            Family::random("prolog-and-mixed-content", tier.n(8_000, 40_000), fam_prolog),
            Family::fixed("corpus", corpus),
        ]
    }
    fn fuzz(&self) -> Option<crate::engine::FuzzSpec<Case>> {
        fn decode(data: &[u8]) -> Option<Case> {
            let (k, doc) = crate::fuzzrider::split(data)?;
            let input = String::from_utf8(doc.to_vec()).ok()?;
            let t = crate::fuzzrider::cfg_table();
            Some(Case { input, c1: t[k].clone(), c2: t[crate::fuzzrider::second_cfg(k)].clone(), fam: "fuzz".into() })
        }
        Some(crate::engine::FuzzSpec { target: "c05_fixpoint", secs: 180, decode })
    }
    fn judge(&self, case: &Case, _strict: bool) -> Verdict {
        // the property speaks about documents whose outermost element is <svg>
        // (a root in a namespace other than SVG's is not an SVG <svg> element: neither an svgdx document nor real SVG)
        let rooted = match crate::sxml::parse_document(&case.input) {
            Ok(evs) => evs.iter().find_map(|e| match e {
                crate::sxml::Ev::Start { name, attrs, .. } => Some(name == "svg" && attrs.iter().all(|(k, v)| k != "xmlns" || v == crate::props::c02::SVG_NS)),
                _ => None,
            }) == Some(true),
            Err(_) => false,
        };
        if !rooted {
            return Verdict::skip("input-not-a-rooted-svg-document", vec![], 0);
        }
        let y = match transform(&case.input, &case.c1) {
            Outcome::Ok(y) => y,
            Outcome::Err(k, _) => return Verdict::skip(format!("first-transform-err:{k}"), vec![], 1),
            Outcome::Panic(l, _) => return Verdict::skip(format!("panic-is-C01:{l}"), vec![], 1),
        };
        let labels = interesting(&y);
        match transform(&y, &case.c2) {
            Outcome::Ok(y2) if y2 == y => Verdict::pass(!labels.is_empty(), labels, 2),
            Outcome::Ok(y2) => {
                let pos = y.bytes().zip(y2.bytes()).position(|(a, b)| a != b).unwrap_or(y.len().min(y2.len()));
                let lo = floor_b(&y, pos.saturating_sub(60));
                let ctx_a = &y[lo..floor_b(&y, (pos + 60).min(y.len()))];
                let lo2 = floor_b(&y2, pos.saturating_sub(60).min(y2.len()));
                let ctx_b = &y2[lo2..floor_b(&y2, (pos + 60).min(y2.len()))];
                // classify the construct in which the first difference sits
                let upto = &y[..floor_b(&y, pos)];
                let place = match upto.rfind('<') {
                    Some(i) if upto[i..].starts_with("<!--") && !upto[i..].contains("-->") => "in-comment",
                    Some(i) if upto[i..].starts_with("<![CDATA[") && !upto[i..].contains("]]>") => "in-cdata",
                    Some(i) if !upto[i..].contains('>') => "in-tag",
                    _ => "in-text",
                };
                Verdict::fail(
                    format!("c05:not-a-fixed-point:{place}"),
                    format!("T(T(x)) != T(x); first difference at byte {pos}:\n  T(x)   : ...{ctx_a}...\n  T(T(x)): ...{ctx_b}...\n--- x ---\n{}\n--- c1 ---\n{:?}\n--- c2 ---\n{:?}", case.input, case.c1, case.c2),
                    labels,
                    2,
                )
            }
            Outcome::Err(k, m) => Verdict::fail(format!("c05:second-transform-failed:{k}"), format!("T_c2(T_c1(x)) failed: {m}\n--- x ---\n{}\n--- T(x) ---\n{}", case.input, crate::run::trunc(&y, 3000)), labels, 2),
            Outcome::Panic(l, m) => Verdict::fail(format!("c05:second-transform-panicked:{l}"), format!("{m}\n--- x ---\n{}", case.input), labels, 2),
        }
    }
}

fn floor_b(s: &str, mut i: usize) -> usize {
    i = i.min(s.len());
    while i > 0 && !s.is_char_boundary(i) {
        i -= 1;
    }
    i
}
