pub fn run(_seed: u64) -> i32 { 0 }
