//! `svgdx-verif selftest`: differential test of the oracle XML parser `sxml` against Python's expat.
//! A disagreement means the machinery is broken (exit 2) - it is never a verdict on svgdx.

use crate::engine::runner_for;
use crate::sxml::{self, Ev};
use proptest::prelude::*;
use proptest::strategy::ValueTree;
use serde_json::Value;
use std::io::{BufRead, BufReader, Write};
use std::process::{Command, Stdio};

fn to_expat_shape(evs: &[Ev]) -> Vec<Value> {
    use serde_json::json;
    let mut out: Vec<Value> = Vec::new();
    for e in evs {
        match e {
            Ev::Decl(_) => out.push(json!(["decl"])),
            Ev::Doctype(d) => {
                let name = d.trim_start_matches("<!DOCTYPE").split_whitespace().next().unwrap_or("").trim_end_matches('>').to_string();
                out.push(json!(["doctype", name]));
            }
            Ev::PI { target, data } => out.push(json!(["pi", target, data])),
            Ev::Comment(c) => out.push(json!(["comment", c])),
            Ev::Start { name, attrs, empty } => {
                let a: Vec<Value> = attrs.iter().map(|(k, v)| json!([k, v])).collect();
                out.push(json!(["start", name, a]));
                if *empty {
                    out.push(json!(["end", name]));
                }
            }
            Ev::End { name } => out.push(json!(["end", name])),
            Ev::Text(t) => out.push(json!(["text", t])),
            Ev::CData(t) => out.push(json!(["cdata", t])),
        }
    }
    out
}

/// expat reports whitespace-only text in prolog/epilog nowhere, like sxml's document mode; inside the
/// root both report everything. expat merges nothing across CDATA boundaries either.
fn damage(doc: &str, ops: &[(u8, u32, u8)]) -> String {
    const INS: &[&str] = &["<", ">", "&", "\"", "'", "/", "=", " ", "--", "]]>", "<!--", "-->", "<![CDATA[", "?>", "<?x ", "&#0;", "&#x41;", "&lt;", "&bogus;", "<a>", "</a>", "<a/>", " a='1'", "\u{1}", "x", ";", "&amp", "<!", "</", "&#xD800;", "&#1114112;", "xml"];
    let mut s: Vec<char> = doc.chars().collect();
    for (op, pos, k) in ops {
        if s.is_empty() {
            break;
        }
        let p = *pos as usize % s.len();
        match op % 4 {
            0 => {
                s.remove(p);
            }
            1 => {
                let ins: Vec<char> = INS[*k as usize % INS.len()].chars().collect();
                for (i, c) in ins.into_iter().enumerate() {
                    s.insert(p + i, c);
                }
            }
            2 => {
                let c = s[p];
                s.insert(p, c);
            }
            _ => {
                let q = (*k as usize * 7 + p) % s.len();
                s.swap(p, q);
            }
        }
    }
    s.into_iter().collect()
}

pub fn run(seed: u64) -> i32 {
    let driver = "/verif/tools/expat_driver.py";
    let mut child = match Command::new("python3").arg(driver).stdin(Stdio::piped()).stdout(Stdio::piped()).stderr(Stdio::null()).spawn() {
        Ok(c) => c,
        Err(e) => {
            eprintln!("selftest: cannot start python3 expat driver: {e}");
            return 2;
        }
    };
    let mut stdin = child.stdin.take().unwrap();
    let mut stdout = BufReader::new(child.stdout.take().unwrap());
    let strat = (crate::props::c03::document_strategy(), proptest::collection::vec((any::<u8>(), any::<u32>(), any::<u8>()), 0..3));
    let n = 6000usize;
    let (mut agree_ok, mut agree_err, mut excluded) = (0usize, 0usize, 0usize);
    for i in 0..n {
        let mut runner = runner_for(seed, "selftest", "sxml-vs-expat", i);
        let (doc, ops) = match strat.new_tree(&mut runner) {
            Ok(t) => t.current(),
            Err(_) => continue,
        };
        // two thirds of the documents are damaged (mostly ill-formed), one third left well-formed
        let doc = if i % 3 == 0 { doc } else { damage(&doc, &ops) };
        // out-of-scope for the comparison: CR (line-end normalisation), TAB/LF in attribute values cannot be
        // told apart cheaply, so skip any document containing CR or TAB; internal DTD subsets; non-ASCII outside
        // character data is judged by different editions of the name rules
        if doc.contains('\r') || doc.contains('\t') || (doc.contains("<!DOCTYPE") && doc.contains('[')) {
            excluded += 1;
            continue;
        }
        let mine = sxml::parse_document(&doc);
        if writeln!(stdin, "{}", serde_json::to_string(&doc).unwrap()).is_err() {
            eprintln!("selftest: driver pipe closed");
            return 2;
        }
        let _ = stdin.flush();
        let mut line = String::new();
        if stdout.read_line(&mut line).unwrap_or(0) == 0 {
            eprintln!("selftest: driver died");
            return 2;
        }
        let theirs: Value = serde_json::from_str(&line).unwrap_or(Value::Null);
        let their_ok = theirs.get("ok").and_then(|v| v.as_bool()).unwrap_or(false);
        match (&mine, their_ok) {
            (Ok(evs), true) => {
                let a = Value::Array(to_expat_shape(evs));
                let b = theirs.get("events").cloned().unwrap_or(Value::Null);
                // attribute values containing a newline are normalised by expat: skip those
                let has_nl_attr = evs.iter().any(|e| matches!(e, Ev::Start { attrs, .. } if attrs.iter().any(|(_, v)| v.contains('\n'))));
                if has_nl_attr {
                    excluded += 1;
                } else if a != b {
                    eprintln!("selftest: sxml and expat disagree on the EVENTS of document #{i}:\n{doc}\n  sxml : {a}\n  expat: {b}");
                    return 2;
                } else {
                    agree_ok += 1;
                }
            }
            (Err(_), false) => agree_err += 1,
            (Ok(_), false) | (Err(_), true) => {
                let err = theirs.get("err").and_then(|v| v.as_str()).unwrap_or("").to_string();
                let mine_s = match &mine {
                    Ok(_) => "accepted".to_string(),
                    Err(e) => e.to_string(),
                };
                // documented, benign differences
                let non_ascii_markup = !doc.is_ascii();
                // sxml skips a DOCTYPE declaration textually (svgdx never synthesises one, it only copies the
                // input's through), so its internal syntax and its effect on entity handling are not compared
                let dtd_entity = doc.contains("<!DOCTYPE") || doc.contains("<!DOC");
                let decl_detail = doc.contains("<?xml") && (err.contains("XML declaration") || err.contains("XML or text declaration") || mine_s.contains("XML declaration") || mine_s.contains("reserved PI target") || err.contains("encoding"));
                if non_ascii_markup || dtd_entity || decl_detail {
                    excluded += 1;
                } else {
                    eprintln!("selftest: sxml and expat disagree on WELL-FORMEDNESS of document #{i}:\n{doc}\n  sxml : {mine_s}\n  expat: {}", if their_ok { "accepted".to_string() } else { err });
                    return 2;
                }
            }
        }
    }
    drop(stdin);
    let _ = child.wait();
    eprintln!("selftest: sxml vs expat on {n} documents: {agree_ok} accepted with identical events, {agree_err} rejected by both, {excluded} excluded (out of scope)");
    if agree_ok < 500 || agree_err < 500 {
        eprintln!("selftest: too few comparable documents");
        return 2;
    }
    0
}
