//! C10 Forward references: geometry is independent of document order.

use crate::engine::{Family, Property, Tier, Verdict};
use crate::gen::{self, XEl};
use crate::props::c09::{self, build_nodes, id_of, node_xml, npick, Kind, Node};
use crate::run::{transform, Cfg, Outcome};
use crate::sxml;
use proptest::collection::vec;
use proptest::prelude::*;
use serde::{Deserialize, Serialize};

pub struct C10;

#[derive(Clone, Debug, Serialize, Deserialize)]
pub struct Case {
    /// positive family: a reference DAG in an order where every reference points backwards
    pub nodes: Vec<Node>,
    /// extra referrers appended after the DAG (connectors, surround/inside): (xml element name, attrs), refer to DAG ids
    pub extras: Vec<Vec<(String, String)>>,
    /// negative family: raw sibling elements that can never be satisfied (all orders must fail)
    pub negative: Vec<String>,
    pub perm_seed: u64,
}

fn extras_from(picks: &[(u8, u8, u8, u8)], n: usize, nodes: &[Node]) -> Vec<Vec<(String, String)>> {
    let mut out = Vec::new();
    let targets: Vec<usize> = (0..n).filter(|i| !matches!(nodes[*i].kind, Kind::Point)).collect();
    if targets.is_empty() {
        return out;
    }
    for (k, (kind, a, b, m)) in picks.iter().enumerate() {
        let ta = targets[(*a as usize * targets.len()) >> 8];
        let tb = targets[(*b as usize * targets.len()) >> 8];
        let id = format!("x{k}");
        // a referrer may also point at the previous extra, so that extras form chains of their own
        let prev = if k > 0 && m % 2 == 0 { format!("x{}", k - 1) } else { id_of(ta) };
        let v: Vec<(String, String)> = match kind % 13 {
            // offsets / size deltas computed from another element: the element is not laid out until they resolve
            5 => vec![("_el".into(), "rect".into()), ("id".into(), id), ("x".into(), format!("{}", m % 11)), ("y".into(), format!("{}", m % 7)), ("width".into(), "5".into()), ("height".into(), "4".into()),
                      ((if m % 3 == 0 { "dx" } else if m % 3 == 1 { "dy" } else { "dxy" }).into(), format!("{{{{#{}~w}}}}", id_of(tb)))],
            6 => vec![("_el".into(), "rect".into()), ("id".into(), id), ("xy".into(), format!("#{prev}|h {}", m % 5)), ("wh".into(), format!("{}", 2 + m % 4))],
            7 => vec![("_el".into(), "rect".into()), ("id".into(), id), ("inside".into(), format!("#{}", id_of(tb))), ("margin".into(), format!("{}", (m % 3) as f32 * 0.25))],
            8 => vec![("_el".into(), "rect".into()), ("id".into(), id), ("xy".into(), format!("#{prev}@br")), ("width".into(), "6".into()), ("height".into(), "3".into()), ("dw".into(), format!("{{{{#{}~h / 2}}}}", id_of(tb)))],
            // an instance placed by an anchor that needs the target's size (the target may itself still await layout)
            9 => vec![("_el".into(), "use".into()), ("id".into(), id), ("href".into(), format!("#{prev}")), ((if m % 3 == 0 { "cxy" } else if m % 3 == 1 { "xy2" } else { "xy" }).into(), format!("{} {}", 20 + m % 13, 30 + m % 5))],
            // the same, placed one axis at a time (and by a value taken from another element)
            10 => {
                let (ax, ay) = [("cx", "cy"), ("x2", "y2"), ("x", "y2"), ("cx", "y")][(m / 3) as usize % 4];
                vec![("_el".into(), "use".into()), ("id".into(), id), ("href".into(), format!("#{prev}")), (ax.into(), format!("{{{{#{}~x2 + {}}}}}", id_of(tb), 20 + m % 13)), (ay.into(), format!("{}", 30 + m % 5))]
            }
            // native geometry, moved by a transform whose amount is taken from another element
            11 => vec![("_el".into(), "rect".into()), ("id".into(), id), ("x".into(), format!("{}", m % 11)), ("y".into(), format!("{}", m % 7)), ("width".into(), "5".into()), ("height".into(), "4".into()),
                       ("transform".into(), format!("translate({{{{#{}~w}}}} {})", id_of(tb), m % 4))],
            // a group whose content waits for another element: registered, but without a box of its own until then
            12 => vec![("_el".into(), "g".into()), ("id".into(), id), ("_kid".into(), format!("#{}|{} {}", id_of(tb), ["h", "v", "H", "V"][(m / 2) as usize % 4], 1 + m % 4))],
            // (with an even m the second target is the previous extra - possibly such a group, or something else still pending)
            0 => vec![("_el".into(), "rect".into()), ("id".into(), id), ("surround".into(), format!("#{} #{}", id_of(tb), prev)), ("margin".into(), format!("{}", m % 5))],
            1 => vec![("_el".into(), "line".into()), ("id".into(), id), ("start".into(), format!("#{}", id_of(ta))), ("end".into(), format!("#{}", id_of(tb)))],
            2 => vec![("_el".into(), "polyline".into()), ("id".into(), id), ("start".into(), format!("#{}@r", id_of(ta))), ("end".into(), format!("#{}@l", id_of(tb)))],
            3 => vec![("_el".into(), "rect".into()), ("id".into(), id), ("xy".into(), format!("#{}|v {}", id_of(ta), m % 7)), ("width".into(), format!("{}", 1 + m % 9)), ("height".into(), format!("{}", 1 + m % 4))],
            _ => vec![("_el".into(), "circle".into()), ("id".into(), id), ("cxy".into(), format!("#{}@br", id_of(ta))), ("r".into(), format!("{{{{#{}~w / 4 + 1}}}}", id_of(tb)))],
        };
        out.push(v);
    }
    out
}

fn extra_xml(v: &[(String, String)]) -> XEl {
    let mut e = XEl::new(&v[0].1);
    for (k, val) in &v[1..] {
        if k == "_kid" {
            e.kids.push(crate::gen::X::El(XEl::new("rect").a("xy", val.clone()).a("wh", "5 3")));
        } else {
            e.set(k, val.clone());
        }
    }
    e
}

fn fam_dag(_t: Tier) -> BoxedStrategy<Case> {
    (vec(npick(), 2..7), vec((any::<u8>(), any::<u8>(), any::<u8>(), any::<u8>()), 0..4), any::<u64>())
        .prop_map(|(p, ex, perm_seed)| {
            let mut nodes = build_nodes(&p, true);
            // groups hold children whose ids are not referenced: fine. Keep at most 7 siblings in total.
            let max_nodes = 7usize.saturating_sub(ex.len()).max(2);
            nodes.truncate(max_nodes);
            let extras = extras_from(&ex, nodes.len(), &nodes);
            Case { nodes, extras, negative: vec![], perm_seed }
        })
        .boxed()
}

/// long dependency chains (14-40 links): written in reverse every link fails once per link behind it, so the number of
/// failed attempts of one document runs into the hundreds
fn fam_chains(_t: Tier) -> BoxedStrategy<Case> {
    (vec(npick(), 1..2), 14usize..41, vec(any::<u8>(), 40), any::<u64>())
        .prop_map(|(p, len, sel, perm_seed)| {
            let nodes = build_nodes(&p, true);
            let mut extras = Vec::new();
            for k in 0..len {
                let prev = if k == 0 { id_of(0) } else { format!("x{}", k - 1) };
                let id = format!("x{k}");
                let m = sel[k];
                let v: Vec<(String, String)> = match m % 5 {
                    0 => vec![("_el".into(), "rect".into()), ("id".into(), id), ("xy".into(), format!("#{prev}|h {}", m % 3)), ("wh".into(), "5".into())],
                    1 => vec![("_el".into(), "rect".into()), ("id".into(), id), ("xy".into(), format!("#{prev}@br")), ("width".into(), "6".into()), ("height".into(), "3".into())],
                    2 => vec![("_el".into(), "circle".into()), ("id".into(), id), ("cxy".into(), format!("#{prev}@r {} 0", 3 + m % 4)), ("r".into(), "2".into())],
                    3 => vec![("_el".into(), "rect".into()), ("id".into(), id), ("xy".into(), format!("#{prev}|v 1")), ("wh".into(), format!("#{prev}"))],
                    _ => vec![("_el".into(), "rect".into()), ("id".into(), id), ("x".into(), format!("{{{{#{prev}~x2 + 1}}}}")), ("y".into(), "0".into()), ("width".into(), "4".into()), ("height".into(), "4".into())],
                };
                extras.push(v);
            }
            Case { nodes, extras, negative: vec![], perm_seed }
        })
        .boxed()
}

fn fam_negative(_t: Tier) -> BoxedStrategy<Case> {
    (0u8..12, 2usize..5, any::<u8>(), any::<u64>())
        .prop_map(|(kind, n, sel, perm_seed)| {
            let mut els: Vec<String> = Vec::new();
            // an innocent bystander that is fine on its own
            els.push("<rect id=\"ok\" xy=\"100 100\" wh=\"5\"/>".to_string());
            match kind {
                0 => els.push("<rect id=\"a\" xy=\"#nope|h\" wh=\"3\"/>".into()),
                1 => els.push("<circle id=\"a\" cxy=\"#ok@c\" r=\"{{#nope~w}}\"/>".into()),
                2 => els.push("<line id=\"a\" start=\"#ok\" end=\"#nope\"/>".into()),
                3 => els.push("<rect id=\"a\" surround=\"#ok #nope\"/>".into()),
                4..=8 => {
                    // cycles of length n in several spellings of the members' geometry
                    for i in 0..n {
                        let j = (i + 1) % n;
                        els.push(match (kind, (sel as usize + i) % 3) {
                            (4, _) => format!("<rect id=\"c{i}\" xy=\"#c{j}|h 2\" wh=\"4\"/>"),
                            (5, _) => format!("<rect id=\"c{i}\" xy=\"#c{j}|v\" width=\"4\" height=\"3\"/>"),
                            (6, 0) => format!("<rect id=\"c{i}\" xy=\"#c{j}@br\" width=\"4\" height=\"3\"/>"),
                            (6, 1) => format!("<circle id=\"c{i}\" cxy=\"#c{j}@t 1 1\" r=\"2\"/>"),
                            (6, _) => format!("<rect id=\"c{i}\" x=\"#c{j}~x2\" y=\"#c{j}~y2\" width=\"2\" height=\"2\"/>"),
                            (7, _) => format!("<rect id=\"c{i}\" surround=\"#c{j}\" margin=\"1\"/>"),
                            (_, 0) => format!("<rect id=\"c{i}\" xy=\"0 0\" wh=\"#c{j} 50%\"/>"),
                            (_, 1) => format!("<rect id=\"c{i}\" cxy=\"#c{j}\" width=\"3\" height=\"3\" dxy=\"1\"/>"),
                            (_, _) => format!("<line id=\"c{i}\" xy1=\"#c{j}@tl\" xy2=\"#c{j}@br 2\"/>"),
                        });
                    }
                }
                9 => {
                    // target without a bounding box: no size
                    els.push("<rect id=\"t\" xy=\"3 4\"/>".into());
                    els.push(["<rect id=\"a\" xy=\"#t|h\" wh=\"2\"/>", "<rect id=\"a\" surround=\"#t\"/>", "<line id=\"a\" start=\"#ok\" end=\"#t\"/>"][sel as usize % 3].into());
                }
                10 => {
                    els.push("<title id=\"t\">no geometry</title>".into());
                    els.push(["<rect id=\"a\" xy=\"#t|h\" wh=\"2\"/>", "<circle id=\"a\" cxy=\"#t@c\" r=\"2\"/>", "<rect id=\"a\" wh=\"#t\"/>"][sel as usize % 3].into());
                }
                _ => {
                    els.push("<defs><linearGradient id=\"t\"><stop offset=\"5%\"/></linearGradient></defs>".into());
                    els.push(["<rect id=\"a\" xy=\"#t|v\" wh=\"2\"/>", "<rect id=\"a\" inside=\"#t\"/>"][sel as usize % 2].into());
                }
            }
            Case { nodes: vec![], extras: vec![], negative: els, perm_seed }
        })
        .boxed()
}

fn permutations(n: usize, seed: u64) -> (Vec<Vec<usize>>, bool) {
    if n <= 5 {
        // all n! orders (Heap's algorithm)
        let mut out = Vec::new();
        let mut a: Vec<usize> = (0..n).collect();
        let mut c = vec![0usize; n];
        out.push(a.clone());
        let mut i = 0;
        while i < n {
            if c[i] < i {
                if i % 2 == 0 {
                    a.swap(0, i);
                } else {
                    a.swap(c[i], i);
                }
                out.push(a.clone());
                c[i] += 1;
                i = 0;
            } else {
                c[i] = 0;
                i += 1;
            }
        }
        (out, true)
    } else {
        // 60 sampled orders, a pure function of the case (plus the full reversal)
        let mut out = Vec::new();
        let mut s = seed | 1;
        out.push((0..n).rev().collect());
        for _ in 0..59 {
            let mut a: Vec<usize> = (0..n).collect();
            for i in (1..n).rev() {
                s = crate::engine::splitmix(s);
                let j = (s % (i as u64 + 1)) as usize;
                a.swap(i, j);
            }
            out.push(a);
        }
        (out, false)
    }
}

fn geometry_by_id(out: &str) -> Result<Vec<(String, String, Vec<(String, String)>)>, String> {
    let tree = sxml::parse_tree(out).map_err(|e| e.to_string())?;
    let mut v = Vec::new();
    for e in tree.descendants() {
        if let Some(id) = e.attr("id") {
            let mut geo: Vec<(String, String)> = e.attrs.iter().filter(|(k, _)| matches!(k.as_str(), "x" | "y" | "width" | "height" | "cx" | "cy" | "r" | "rx" | "ry" | "x1" | "y1" | "x2" | "y2" | "points" | "transform")).cloned().collect();
            geo.sort();
            v.push((id.to_string(), e.name.clone(), geo));
        }
    }
    Ok(v)
}

fn geo_equal(a: &[(String, String)], b: &[(String, String)]) -> bool {
    if a.len() != b.len() {
        return false;
    }
    a.iter().zip(b.iter()).all(|((ka, va), (kb, vb))| {
        if ka != kb {
            return false;
        }
        if va == vb {
            return true;
        }
        let na: Vec<f64> = va.split(|c: char| c.is_whitespace() || c == ',').filter(|s| !s.is_empty()).filter_map(|s| s.parse().ok()).collect();
        let nb: Vec<f64> = vb.split(|c: char| c.is_whitespace() || c == ',').filter(|s| !s.is_empty()).filter_map(|s| s.parse().ok()).collect();
        !na.is_empty() && na.len() == nb.len() && na.iter().zip(nb.iter()).all(|(x, y)| (x - y).abs() <= 0.0011 + 4e-6 * x.abs())
    })
}

impl Property for C10 {
    type Case = Case;
    fn id(&self) -> &'static str {
        "C10"
    }
    fn rule(&self) -> String {
        "cases = side-effect-free reference DAGs (C09's forms restricted to #id references; every spelling of the referenced geometry: wh vs width/height, xy vs x/y, cxy+r, relative vs absolute) of 2-7 siblings plus referrers that are connectors, surround boxes, <use> instances placed by an anchor and expression readers; dependency chains of 14-40 links (hundreds of failed attempts when written in reverse); \
         for each DAG all n! sibling orders for n <= 5 (exhaustive) and 60 sampled orders above; negative family: unknown ids, 2..4-cycles in every spelling, targets without a bounding box. \
         Oracle (metamorphic): the order in which every reference points backwards is the baseline; if it succeeds every permutation succeeds, yields the same native geometry per id (tolerance 0.0011) and emits the elements in the permuted order; every order of a negative document fails. \
         Non-trivial = at least one permutation contains a forward reference (positive) or the document is from the negative family; distinct by hash of the case."
            .into()
    }
    fn assumptions(&self) -> Vec<String> {
        vec!["documents are side-effect free (no var, random, ^), so sibling order is the only thing that changes between runs".into()]
    }
    fn families(&self, tier: Tier) -> Vec<Family<Case>> {
        vec![Family::random("dag-permutations", tier.n(6_000, 40_000), fam_dag), Family::random("long-chains", tier.n(150, 1500), fam_chains), Family::random("negative", tier.n(1_600, 6000), fam_negative)]
    }
    fn judge(&self, case: &Case, _strict: bool) -> Verdict {
        let cfg = Cfg::plain();
        let mut evals = 0u32;
        if !case.negative.is_empty() {
            let n = case.negative.len();
            let (perms, _) = permutations(n, case.perm_seed);
            for p in &perms {
                let doc = format!("<svg>\n{}\n</svg>", p.iter().map(|i| case.negative[*i].clone()).collect::<Vec<_>>().join("\n"));
                evals += 1;
                match transform(&doc, &cfg) {
                    Outcome::Ok(out) => {
                        let what = case.negative.iter().find(|e| e.contains("#nope")).map(|_| "unknown-id").unwrap_or_else(|| if case.negative.iter().any(|e| e.contains("id=\"c1\"")) { "cycle" } else { "target-without-bbox" });
                        return Verdict::fail(format!("c10:unsatisfiable-resolved:{what}"), format!("a reference that can never be satisfied was resolved silently\n--- document ---\n{doc}\n--- output ---\n{out}"), vec![], evals);
                    }
                    Outcome::Err(..) => {}
                    Outcome::Panic(l, m) => return Verdict::fail(format!("c10:panic:{l}"), m, vec![], evals),
                }
            }
            return Verdict::pass(true, vec!["negative".into()], evals);
        }
        let mut els: Vec<XEl> = case.nodes.iter().enumerate().map(|(i, n)| node_xml(i, n)).collect();
        els.extend(case.extras.iter().map(|v| extra_xml(v)));
        let n = els.len();
        let base_doc = gen::svg_root(els.clone()).to_xml();
        evals += 1;
        let base_out = match transform(&base_doc, &cfg) {
            Outcome::Ok(o) => o,
            Outcome::Err(k, _) => return Verdict::skip(format!("baseline-failed:{k}"), vec![], evals),
            Outcome::Panic(l, _) => return Verdict::skip(format!("panic-is-C01:{l}"), vec![], evals),
        };
        let base_geo = match geometry_by_id(&base_out) {
            Ok(g) => g,
            Err(e) => return Verdict::fail("c10:output-illformed", e, vec![], evals),
        };
        // sanity: the baseline itself agrees with the C09 model (so "same as baseline" means "right")
        if let Err((sig, d)) = c09::compare(&c09::Case { nodes: case.nodes.clone() }, &base_out) {
            return Verdict::skip(format!("baseline-not-matching-model-is-C09:{sig}:{}", crate::run::trunc(&d, 80)), vec![], evals);
        }
        let (perms, exhaustive) = permutations(n, case.perm_seed);
        let mut forward = 0usize;
        for p in &perms {
            if p.iter().enumerate().all(|(i, j)| i == *j) {
                continue;
            }
            forward += 1;
            let doc = gen::svg_root(p.iter().map(|i| els[*i].clone()).collect()).to_xml();
            evals += 1;
            let out = match transform(&doc, &cfg) {
                Outcome::Ok(o) => o,
                Outcome::Err(k, m) => {
                    return Verdict::fail(format!("c10:order-dependent-failure:{k}"), format!("the baseline order succeeds but this order fails: {m}\n--- baseline ---\n{base_doc}\n--- permuted ---\n{doc}"), vec![], evals)
                }
                Outcome::Panic(l, m) => return Verdict::fail(format!("c10:panic:{l}"), m, vec![], evals),
            };
            let geo = match geometry_by_id(&out) {
                Ok(g) => g,
                Err(e) => return Verdict::fail("c10:output-illformed", e, vec![], evals),
            };
            // same geometry per id
            for (id, name, g) in &base_geo {
                match geo.iter().find(|(i2, _, _)| i2 == id) {
                    None => return Verdict::fail("c10:element-missing", format!("element #{id} missing in permuted output\n--- permuted ---\n{doc}\n--- output ---\n{out}"), vec![], evals),
                    Some((_, name2, g2)) => {
                        if name != name2 || !geo_equal(g, g2) {
                            let spelled = doc.lines().find(|l| l.contains(&format!("id=\"{id}\""))).unwrap_or("").trim().to_string();
                            let kind = if spelled.contains("start=") { "connector" } else if spelled.contains("surround=") { "surround" } else if spelled.contains("inside=") { "inside" } else if spelled.contains("width=") && spelled.contains("xy=") { "xy+width/height" } else { "other" };
                            return Verdict::fail(
                                format!("c10:geometry-depends-on-order:{kind}"),
                                format!("element #{id}: baseline {name} {g:?} vs permuted {name2} {g2:?}\n--- baseline ---\n{base_doc}\n--- permuted ---\n{doc}\n--- permuted output ---\n{out}"),
                                vec![],
                                evals,
                            );
                        }
                    }
                }
            }
            // output order follows the permuted document order
            let want_order: Vec<String> = p.iter().filter_map(|i| els[*i].get("id").map(|s| s.to_string())).collect();
            let got_order: Vec<String> = geo.iter().map(|(i, _, _)| i.clone()).filter(|i| want_order.contains(i)).collect();
            let want_present: Vec<String> = want_order.iter().filter(|i| got_order.contains(i)).cloned().collect();
            if got_order != want_present {
                return Verdict::fail("c10:output-order", format!("output order {got_order:?} is not the document order {want_present:?}\n--- permuted ---\n{doc}"), vec![], evals);
            }
        }
        let mut labels = vec![format!("siblings:{n}")];
        if exhaustive {
            labels.push("all-orders".into());
        }
        if !case.extras.is_empty() {
            labels.push("with-connector-or-surround-referrers".into());
        }
        Verdict::pass(forward > 0, labels, evals)
    }
}
