//! `sxml` - a strict, non-validating XML 1.0 parser written from the grammar.
//!
//! This is the *oracle* parser: it is deliberately independent of quick-xml
//! (the parser svgdx itself uses, which is lenient in exactly the places the
//! well-formedness property cares about). It is cross-checked against Python's
//! expat by `svgdx-verif selftest`.
//!
//! Output is an infoset-like event list with all references resolved.
//! Attribute values are NOT whitespace-normalised (tab/LF/CR are kept as they
//! are written); generators keep those characters out of attribute values.

use serde::{Deserialize, Serialize};

#[derive(Clone, Debug, PartialEq, Eq, Serialize, Deserialize)]
pub enum Ev {
    Decl(String),
    Doctype(String),
    PI { target: String, data: String },
    Comment(String),
    Start { name: String, attrs: Vec<(String, String)>, empty: bool },
    End { name: String },
    Text(String),
    CData(String),
}

#[derive(Clone, Debug, PartialEq, Eq)]
pub struct XmlErr {
    pub pos: usize,
    pub msg: String,
}

impl std::fmt::Display for XmlErr {
    fn fmt(&self, f: &mut std::fmt::Formatter<'_>) -> std::fmt::Result {
        write!(f, "XML not well-formed at byte {}: {}", self.pos, self.msg)
    }
}

pub fn is_xml_char(c: char) -> bool {
    matches!(c as u32,
        0x9 | 0xA | 0xD | 0x20..=0xD7FF | 0xE000..=0xFFFD | 0x10000..=0x10FFFF)
}

pub fn is_name_start(c: char) -> bool {
    matches!(c as u32,
        0x3A | 0x41..=0x5A | 0x5F | 0x61..=0x7A | 0xC0..=0xD6 | 0xD8..=0xF6 | 0xF8..=0x2FF
        | 0x370..=0x37D | 0x37F..=0x1FFF | 0x200C..=0x200D | 0x2070..=0x218F | 0x2C00..=0x2FEF
        | 0x3001..=0xD7FF | 0xF900..=0xFDCF | 0xFDF0..=0xFFFD | 0x10000..=0xEFFFF)
}

pub fn is_name_char(c: char) -> bool {
    is_name_start(c)
        || matches!(c as u32, 0x2D | 0x2E | 0x30..=0x39 | 0xB7 | 0x300..=0x36F | 0x203F..=0x2040)
}

fn is_ws(c: char) -> bool {
    matches!(c, ' ' | '\t' | '\n' | '\r')
}

struct P<'a> {
    s: &'a str,
    i: usize,
    /// general entities declared in the DOCTYPE's internal subset: references to them are well-formed; they are
    /// not expanded but kept as an opaque marker (private-use characters around the name) in the infoset
    entities: Vec<String>,
}

impl<'a> P<'a> {
    fn err<T>(&self, msg: impl Into<String>) -> Result<T, XmlErr> {
        Err(XmlErr { pos: self.i, msg: msg.into() })
    }
    fn rest(&self) -> &'a str {
        &self.s[self.i..]
    }
    fn peek(&self) -> Option<char> {
        self.rest().chars().next()
    }
    fn eof(&self) -> bool {
        self.i >= self.s.len()
    }
    fn starts(&self, pat: &str) -> bool {
        self.rest().starts_with(pat)
    }
    fn eat(&mut self, pat: &str) -> bool {
        if self.starts(pat) {
            self.i += pat.len();
            true
        } else {
            false
        }
    }
    fn bump(&mut self) -> Option<char> {
        let c = self.peek()?;
        self.i += c.len_utf8();
        Some(c)
    }
    fn skip_ws(&mut self) -> usize {
        let start = self.i;
        while let Some(c) = self.peek() {
            if is_ws(c) {
                self.i += 1;
            } else {
                break;
            }
        }
        self.i - start
    }
    fn name(&mut self) -> Result<String, XmlErr> {
        let start = self.i;
        match self.peek() {
            Some(c) if is_name_start(c) => {
                self.bump();
            }
            _ => return self.err("expected a name"),
        }
        while let Some(c) = self.peek() {
            if is_name_char(c) {
                self.bump();
            } else {
                break;
            }
        }
        Ok(self.s[start..self.i].to_string())
    }

    /// Parse a reference after '&' has been seen (self.i at '&').
    fn reference(&mut self) -> Result<String, XmlErr> {
        debug_assert!(self.starts("&"));
        self.i += 1;
        if self.eat("#x") {
            let start = self.i;
            while let Some(c) = self.peek() {
                if c.is_ascii_hexdigit() {
                    self.i += 1;
                } else {
                    break;
                }
            }
            if start == self.i || !self.eat(";") {
                return self.err("malformed hex character reference");
            }
            let v = u32::from_str_radix(&self.s[start..self.i - 1], 16).unwrap_or(u32::MAX);
            return match char::from_u32(v) {
                Some(c) if is_xml_char(c) => Ok(c.to_string()),
                _ => self.err("character reference to a non-Char"),
            };
        }
        if self.eat("#") {
            let start = self.i;
            while let Some(c) = self.peek() {
                if c.is_ascii_digit() {
                    self.i += 1;
                } else {
                    break;
                }
            }
            if start == self.i || !self.eat(";") {
                return self.err("malformed decimal character reference");
            }
            let v = self.s[start..self.i - 1].parse::<u32>().unwrap_or(u32::MAX);
            return match char::from_u32(v) {
                Some(c) if is_xml_char(c) => Ok(c.to_string()),
                _ => self.err("character reference to a non-Char"),
            };
        }
        let n = self.name()?;
        if !self.eat(";") {
            return self.err("entity reference without ';'");
        }
        match n.as_str() {
            "amp" => Ok("&".into()),
            "lt" => Ok("<".into()),
            "gt" => Ok(">".into()),
            "quot" => Ok("\"".into()),
            "apos" => Ok("'".into()),
            // (kept apart from the literal text "&name;", which is what a wrongly escaped reference turns into)
            _ if self.entities.iter().any(|e| e == &n) => Ok(format!("\u{e000}entity:{n}\u{e001}")),
            _ => self.err(format!("undefined entity '{n}'")),
        }
    }

    fn attr_value(&mut self) -> Result<String, XmlErr> {
        let q = match self.peek() {
            Some(c @ ('"' | '\'')) => c,
            _ => return self.err("expected quoted attribute value"),
        };
        self.i += 1;
        let mut out = String::new();
        loop {
            match self.peek() {
                None => return self.err("unterminated attribute value"),
                Some(c) if c == q => {
                    self.i += 1;
                    return Ok(out);
                }
                Some('<') => return self.err("'<' in attribute value"),
                Some('&') => out.push_str(&self.reference()?),
                Some(c) => {
                    if !is_xml_char(c) {
                        return self.err("non-Char in attribute value");
                    }
                    self.bump();
                    out.push(c);
                }
            }
        }
    }

    fn comment(&mut self) -> Result<Ev, XmlErr> {
        // at "<!--"
        self.i += 4;
        let start = self.i;
        loop {
            if self.eof() {
                return self.err("unterminated comment");
            }
            if self.starts("--") {
                let body = self.s[start..self.i].to_string();
                self.i += 2;
                if !self.eat(">") {
                    return self.err("'--' inside comment");
                }
                return Ok(Ev::Comment(body));
            }
            let c = self.bump().unwrap();
            if !is_xml_char(c) {
                return self.err("non-Char in comment");
            }
        }
    }

    fn pi(&mut self, allow_decl: bool) -> Result<Ev, XmlErr> {
        // at "<?"
        let at = self.i;
        self.i += 2;
        let target = self.name()?;
        let is_decl = target.eq_ignore_ascii_case("xml");
        if is_decl && !(allow_decl && target == "xml" && at == 0) {
            return self.err("reserved PI target 'xml'");
        }
        let mut data = String::new();
        if !self.starts("?>") {
            if self.skip_ws() == 0 {
                return self.err("expected whitespace after PI target");
            }
            let start = self.i;
            loop {
                if self.eof() {
                    return self.err("unterminated PI");
                }
                if self.starts("?>") {
                    break;
                }
                let c = self.bump().unwrap();
                if !is_xml_char(c) {
                    return self.err("non-Char in PI");
                }
            }
            data = self.s[start..self.i].to_string();
        }
        self.i += 2;
        if is_decl {
            // minimal validation of the declaration: version pseudo-attribute first
            let d = data.trim_start();
            if !d.starts_with("version") {
                self.i = at;
                return self.err("XML declaration without version");
            }
            if !xml_decl_ok(&data) {
                self.i = at;
                return self.err("malformed XML declaration");
            }
            Ok(Ev::Decl(data))
        } else {
            Ok(Ev::PI { target, data })
        }
    }

    fn doctype(&mut self) -> Result<Ev, XmlErr> {
        // at "<!DOCTYPE"
        let start = self.i;
        self.i += 9;
        if self.skip_ws() == 0 {
            return self.err("expected whitespace after DOCTYPE");
        }
        self.name()?;
        let mut depth = 0i32;
        loop {
            match self.peek() {
                None => return self.err("unterminated DOCTYPE"),
                Some(q @ ('"' | '\'')) => {
                    self.i += 1;
                    loop {
                        match self.bump() {
                            None => return self.err("unterminated literal in DOCTYPE"),
                            Some(c) if c == q => break,
                            Some(c) if !is_xml_char(c) => return self.err("non-Char in DOCTYPE"),
                            _ => {}
                        }
                    }
                }
                Some('[') => {
                    depth += 1;
                    self.i += 1;
                }
                Some(']') => {
                    depth -= 1;
                    self.i += 1;
                }
                Some('<') if depth > 0 => {
                    if self.starts("<!--") {
                        self.comment()?;
                    } else {
                        self.i += 1;
                    }
                }
                Some('<') => return self.err("'<' in DOCTYPE outside internal subset"),
                Some('>') if depth <= 0 => {
                    self.i += 1;
                    let text = self.s[start..self.i].to_string();
                    for decl in text.split("<!ENTITY").skip(1) {
                        let name: String = decl.trim_start().chars().take_while(|c| is_name_char(*c)).collect();
                        if !name.is_empty() && !decl.trim_start().starts_with('%') {
                            self.entities.push(name);
                        }
                    }
                    return Ok(Ev::Doctype(text));
                }
                Some(c) => {
                    if !is_xml_char(c) {
                        return self.err("non-Char in DOCTYPE");
                    }
                    self.bump();
                }
            }
        }
    }

    fn start_tag(&mut self) -> Result<Ev, XmlErr> {
        // at "<" followed by name-start
        self.i += 1;
        let name = self.name()?;
        let mut attrs: Vec<(String, String)> = Vec::new();
        loop {
            let ws = self.skip_ws();
            if self.eat("/>") {
                return Ok(Ev::Start { name, attrs, empty: true });
            }
            if self.eat(">") {
                return Ok(Ev::Start { name, attrs, empty: false });
            }
            if self.eof() {
                return self.err("unterminated start tag");
            }
            if ws == 0 {
                return self.err("expected whitespace before attribute");
            }
            let an = self.name()?;
            self.skip_ws();
            if !self.eat("=") {
                return self.err("expected '=' after attribute name");
            }
            self.skip_ws();
            let av = self.attr_value()?;
            if attrs.iter().any(|(k, _)| *k == an) {
                return self.err(format!("duplicate attribute '{an}'"));
            }
            attrs.push((an, av));
        }
    }

    /// Parse `content` until EOF (top == true) or until the matching end tag of the
    /// enclosing element is *seen* (it is consumed by the caller loop, iteratively).
    fn content(&mut self, document: bool) -> Result<Vec<Ev>, XmlErr> {
        let mut out: Vec<Ev> = Vec::new();
        let mut stack: Vec<String> = Vec::new();
        let mut roots = 0usize;
        let mut seen_doctype = false;
        let mut text = String::new();
        macro_rules! flush {
            () => {
                if !text.is_empty() {
                    if document && stack.is_empty() {
                        if !text.chars().all(is_ws) {
                            return self.err("character data outside the root element");
                        }
                        // whitespace in prolog/epilog is not part of the infoset
                        text.clear();
                    } else {
                        out.push(Ev::Text(std::mem::take(&mut text)));
                    }
                }
            };
        }
        while !self.eof() {
            if self.starts("<!--") {
                flush!();
                out.push(self.comment()?);
            } else if self.starts("<![CDATA[") {
                flush!();
                if document && stack.is_empty() {
                    return self.err("CDATA outside the root element");
                }
                self.i += 9;
                let start = self.i;
                loop {
                    if self.eof() {
                        return self.err("unterminated CDATA section");
                    }
                    if self.starts("]]>") {
                        break;
                    }
                    let c = self.bump().unwrap();
                    if !is_xml_char(c) {
                        return self.err("non-Char in CDATA");
                    }
                }
                out.push(Ev::CData(self.s[start..self.i].to_string()));
                self.i += 3;
            } else if self.starts("<!DOCTYPE") {
                flush!();
                if !stack.is_empty() || roots > 0 || seen_doctype {
                    return self.err("misplaced DOCTYPE");
                }
                seen_doctype = true;
                out.push(self.doctype()?);
            } else if self.starts("<?") {
                flush!();
                let allow_decl = self.i == 0;
                out.push(self.pi(allow_decl)?);
            } else if self.starts("</") {
                flush!();
                self.i += 2;
                let name = self.name()?;
                self.skip_ws();
                if !self.eat(">") {
                    return self.err("malformed end tag");
                }
                match stack.pop() {
                    Some(open) if open == name => out.push(Ev::End { name }),
                    Some(open) => {
                        return self.err(format!("end tag '{name}' does not match '{open}'"))
                    }
                    None => return self.err(format!("unexpected end tag '{name}'")),
                }
            } else if self.starts("<") {
                flush!();
                if stack.is_empty() {
                    roots += 1;
                    if document && roots > 1 {
                        return self.err("more than one root element");
                    }
                }
                let ev = self.start_tag()?;
                if let Ev::Start { name, empty: false, .. } = &ev {
                    stack.push(name.clone());
                }
                out.push(ev);
            } else if self.starts("&") {
                let c = self.reference()?;
                text.push_str(&c);
            } else {
                if self.starts("]]>") {
                    return self.err("']]>' in character data");
                }
                let c = self.bump().unwrap();
                if !is_xml_char(c) {
                    return self.err("non-Char in character data");
                }
                text.push(c);
            }
        }
        flush!();
        if let Some(open) = stack.last() {
            return self.err(format!("unclosed element '{open}'"));
        }
        if document && roots != 1 {
            return self.err("document has no root element");
        }
        Ok(out)
    }
}

/// XMLDecl ::= '<?xml' VersionInfo EncodingDecl? SDDecl? S? '?>'   (`data` is what follows the target)
fn xml_decl_ok(data: &str) -> bool {
    fn pseudo<'a>(s: &'a str, name: &str) -> Option<(&'a str, &'a str)> {
        // S name Eq quoted-value ; returns (value, rest)
        let t = s.trim_start_matches([' ', '\t', '\r', '\n']);
        if t.len() == s.len() {
            return None; // white space is required before each pseudo-attribute
        }
        let t = t.strip_prefix(name)?;
        let t = t.trim_start_matches([' ', '\t', '\r', '\n']).strip_prefix('=')?.trim_start_matches([' ', '\t', '\r', '\n']);
        let q = t.chars().next().filter(|c| *c == '"' || *c == '\'')?;
        let end = t[1..].find(q)?;
        Some((&t[1..1 + end], &t[2 + end..]))
    }
    // (the text after the target starts with the white space that follows it)
    let data = format!(" {}", data.trim_start_matches([' ', '\t', '\r', '\n']));
    let Some((ver, mut rest)) = pseudo(&data, "version") else { return false };
    if !(ver.starts_with("1.") && ver.len() > 2 && ver[2..].bytes().all(|b| b.is_ascii_digit())) {
        return false;
    }
    if let Some((enc, r)) = pseudo(rest, "encoding") {
        let mut ch = enc.chars();
        if !(ch.next().is_some_and(|c| c.is_ascii_alphabetic()) && ch.all(|c| c.is_ascii_alphanumeric() || matches!(c, '.' | '_' | '-'))) {
            return false;
        }
        rest = r;
    }
    if let Some((sd, r)) = pseudo(rest, "standalone") {
        if sd != "yes" && sd != "no" {
            return false;
        }
        rest = r;
    }
    rest.trim_matches([' ', '\t', '\r', '\n']).is_empty()
}

/// Parse a complete XML document (prolog, exactly one root element, trailing misc).
pub fn parse_document(s: &str) -> Result<Vec<Ev>, XmlErr> {
    P { s, i: 0, entities: Vec::new() }.content(true)
}

/// Parse well-formed *content*: any sequence of elements, character data, comments,
/// PIs and CDATA sections with balanced tags (an XML declaration is allowed at byte 0).
pub fn parse_content(s: &str) -> Result<Vec<Ev>, XmlErr> {
    P { s, i: 0, entities: Vec::new() }.content(false)
}

// ---------------------------------------------------------------------------
// Tree view

#[derive(Clone, Debug, PartialEq, Serialize, Deserialize)]
pub enum Node {
    El(Element),
    Text(String),
    CData(String),
    Comment(String),
    PI(String, String),
    Doctype(String),
    Decl(String),
}

#[derive(Clone, Debug, PartialEq, Serialize, Deserialize, Default)]
pub struct Element {
    pub name: String,
    pub attrs: Vec<(String, String)>,
    pub children: Vec<Node>,
}

impl Element {
    pub fn attr(&self, k: &str) -> Option<&str> {
        self.attrs.iter().find(|(n, _)| n == k).map(|(_, v)| v.as_str())
    }
    pub fn has_attr(&self, k: &str) -> bool {
        self.attr(k).is_some()
    }
    pub fn classes(&self) -> Vec<&str> {
        self.attr("class").map(|c| c.split_whitespace().collect()).unwrap_or_default()
    }
    pub fn has_class(&self, c: &str) -> bool {
        self.classes().contains(&c)
    }
    pub fn child_elements(&self) -> impl Iterator<Item = &Element> {
        self.children.iter().filter_map(|n| match n {
            Node::El(e) => Some(e),
            _ => None,
        })
    }
    /// All character data (text + cdata) of this element and its descendants.
    pub fn text_content(&self) -> String {
        let mut s = String::new();
        fn rec(e: &Element, s: &mut String) {
            for c in &e.children {
                match c {
                    Node::Text(t) | Node::CData(t) => s.push_str(t),
                    Node::El(e) => rec(e, s),
                    _ => {}
                }
            }
        }
        rec(self, &mut s);
        s
    }
    /// Character data directly inside this element only.
    pub fn own_text(&self) -> String {
        let mut s = String::new();
        for c in &self.children {
            if let Node::Text(t) | Node::CData(t) = c {
                s.push_str(t)
            }
        }
        s
    }
    /// Depth-first iteration over all descendant elements (self included).
    pub fn descendants(&self) -> Vec<&Element> {
        let mut out = Vec::new();
        let mut stack = vec![self];
        while let Some(e) = stack.pop() {
            out.push(e);
            let kids: Vec<&Element> = e.child_elements().collect();
            for k in kids.into_iter().rev() {
                stack.push(k);
            }
        }
        out
    }
    pub fn find_id(&self, id: &str) -> Option<&Element> {
        self.descendants().into_iter().find(|e| e.attr("id") == Some(id))
    }
}

/// Build a forest from an event list (events must be balanced, as produced by the parser).
pub fn to_forest(evs: &[Ev]) -> Vec<Node> {
    let mut stack: Vec<Element> = vec![Element::default()];
    for ev in evs {
        match ev {
            Ev::Start { name, attrs, empty } => {
                let e = Element { name: name.clone(), attrs: attrs.clone(), children: vec![] };
                if *empty {
                    stack.last_mut().unwrap().children.push(Node::El(e));
                } else {
                    stack.push(e);
                }
            }
            Ev::End { .. } => {
                let e = stack.pop().unwrap();
                stack.last_mut().unwrap().children.push(Node::El(e));
            }
            Ev::Text(t) => stack.last_mut().unwrap().children.push(Node::Text(t.clone())),
            Ev::CData(t) => stack.last_mut().unwrap().children.push(Node::CData(t.clone())),
            Ev::Comment(t) => stack.last_mut().unwrap().children.push(Node::Comment(t.clone())),
            Ev::PI { target, data } => {
                stack.last_mut().unwrap().children.push(Node::PI(target.clone(), data.clone()))
            }
            Ev::Doctype(d) => stack.last_mut().unwrap().children.push(Node::Doctype(d.clone())),
            Ev::Decl(d) => stack.last_mut().unwrap().children.push(Node::Decl(d.clone())),
        }
    }
    stack.pop().unwrap().children
}

/// Parse content and return the synthetic root holding the forest.
pub fn parse_tree(s: &str) -> Result<Element, XmlErr> {
    let evs = parse_content(s)?;
    Ok(Element { name: String::new(), attrs: vec![], children: to_forest(&evs) })
}

/// First element named `svg` at top level of a parsed forest.
pub fn root_svg(root: &Element) -> Option<&Element> {
    root.child_elements().find(|e| e.name == "svg")
}

/// Infoset normalisation used for comparisons: attribute order ignored, empty-vs-pair ignored.
pub fn normalise(evs: &[Ev]) -> Vec<Ev> {
    let mut out = Vec::with_capacity(evs.len());
    for ev in evs {
        match ev {
            Ev::Start { name, attrs, empty } => {
                let mut a = attrs.clone();
                a.sort();
                out.push(Ev::Start { name: name.clone(), attrs: a, empty: false });
                if *empty {
                    out.push(Ev::End { name: name.clone() });
                }
            }
            e => out.push(e.clone()),
        }
    }
    out
}

pub fn escape_text(s: &str) -> String {
    let mut o = String::with_capacity(s.len());
    for c in s.chars() {
        match c {
            '&' => o.push_str("&amp;"),
            '<' => o.push_str("&lt;"),
            '>' => o.push_str("&gt;"),
            _ => o.push(c),
        }
    }
    o
}

pub fn escape_attr(s: &str) -> String {
    let mut o = String::with_capacity(s.len());
    for c in s.chars() {
        match c {
            '&' => o.push_str("&amp;"),
            '<' => o.push_str("&lt;"),
            '>' => o.push_str("&gt;"),
            '"' => o.push_str("&quot;"),
            '\'' => o.push_str("&apos;"),
            _ => o.push(c),
        }
    }
    o
}

#[cfg(test)]
mod tests {
    use super::*;
    #[test]
    fn basics() {
        assert!(parse_document("<a/>").is_ok());
        assert!(parse_document("<a><b x='1' y=\"2\">t&amp;</b><!-- c --><![CDATA[x]]></a>").is_ok());
        assert!(parse_document("<a x='1' x='2'/>").is_err());
        assert!(parse_document("<a x='<'/>").is_err());
        assert!(parse_document("<a>&bogus;</a>").is_err());
        assert!(parse_document("<a><!-- a -- b --></a>").is_err());
        assert!(parse_document("<a>]]></a>").is_err());
        assert!(parse_document("<a>").is_err());
        assert!(parse_document("<a/><b/>").is_err());
        assert!(parse_content("<a/><b/>").is_ok());
        assert!(parse_document("<?xml version='1.0'?><a/>").is_ok());
        assert!(parse_document(" <?xml version='1.0'?><a/>").is_err());
        assert!(parse_document("<a x='1'y='2'/>").is_err());
    }
}
