//! Case loop, seeding, sandboxed execution in worker subprocesses, shrinking,
//! known-finding matching, evidence and replay files.

use proptest::strategy::{BoxedStrategy, Strategy, ValueTree};
use proptest::test_runner::{Config, RngAlgorithm, TestRng, TestRunner};
use serde::de::DeserializeOwned;
use serde::{Deserialize, Serialize};
use serde_json::{json, Value};
use std::collections::{BTreeMap, HashMap, HashSet};
use std::fmt::Debug;
use std::io::{BufRead, BufReader, Write};
use std::process::{Child, ChildStdin, Command, Stdio};
use std::sync::atomic::{AtomicBool, AtomicUsize, Ordering};
use std::sync::mpsc::{channel, Receiver, RecvTimeoutError};
use std::sync::{Arc, Mutex};
use std::time::{Duration, Instant};

pub const VERIF_DIR: &str = "/verif";

#[derive(Clone, Copy, Debug, PartialEq, Eq, Serialize, Deserialize)]
pub enum Tier {
    Quick,
    Thorough,
}

impl Tier {
    pub fn name(&self) -> &'static str {
        match self {
            Tier::Quick => "quick",
            Tier::Thorough => "thorough",
        }
    }
    /// pick a count by tier
    pub fn n(&self, quick: usize, thorough: usize) -> usize {
        match self {
            Tier::Quick => quick,
            Tier::Thorough => thorough,
        }
    }
}

#[derive(Clone, Copy, Debug, PartialEq, Eq, Serialize, Deserialize)]
pub enum Status {
    Pass,
    Fail,
    Skip,
}

#[derive(Clone, Debug, Serialize, Deserialize)]
pub struct Verdict {
    pub status: Status,
    /// Fail: narrow failure signature (oracle clause + input feature); Skip: reason class
    pub sig: String,
    pub detail: String,
    pub nontrivial: bool,
    pub labels: Vec<String>,
    /// number of transforms executed for this case
    pub evals: u32,
}

impl Verdict {
    pub fn pass(nontrivial: bool, labels: Vec<String>, evals: u32) -> Self {
        Verdict { status: Status::Pass, sig: String::new(), detail: String::new(), nontrivial, labels, evals }
    }
    pub fn fail(sig: impl Into<String>, detail: impl Into<String>, labels: Vec<String>, evals: u32) -> Self {
        Verdict { status: Status::Fail, sig: sig.into(), detail: detail.into(), nontrivial: true, labels, evals }
    }
    pub fn skip(reason: impl Into<String>, labels: Vec<String>, evals: u32) -> Self {
        Verdict { status: Status::Skip, sig: reason.into(), detail: String::new(), nontrivial: false, labels, evals }
    }
}

pub enum FamilyKind<C> {
    Random { cases: usize, strat: fn(Tier) -> BoxedStrategy<C> },
    Fixed(Vec<C>),
}

pub struct Family<C> {
    pub name: &'static str,
    pub kind: FamilyKind<C>,
    /// true when a Fixed family enumerates its discrete space completely
    pub exhaustive: bool,
}

impl<C> Family<C> {
    pub fn random(name: &'static str, cases: usize, strat: fn(Tier) -> BoxedStrategy<C>) -> Self {
        Family { name, kind: FamilyKind::Random { cases, strat }, exhaustive: false }
    }
    pub fn fixed(name: &'static str, cases: Vec<C>) -> Self {
        Family { name, kind: FamilyKind::Fixed(cases), exhaustive: false }
    }
    pub fn enumerated(name: &'static str, cases: Vec<C>) -> Self {
        Family { name, kind: FamilyKind::Fixed(cases), exhaustive: true }
    }
    fn len(&self) -> usize {
        match &self.kind {
            FamilyKind::Random { cases, .. } => *cases,
            FamilyKind::Fixed(v) => v.len(),
        }
    }
}

pub trait Property: Send + Sync + 'static {
    type Case: Serialize + DeserializeOwned + Clone + Debug + Send + Sync + 'static;
    fn id(&self) -> &'static str;
    fn level(&self) -> &'static str {
        "exploration"
    }
    fn rule(&self) -> String;
    fn assumptions(&self) -> Vec<String> {
        vec![]
    }
    fn families(&self, tier: Tier) -> Vec<Family<Self::Case>>;
    /// Execute the case against the code under test and judge it (runs in a worker).
    fn judge(&self, case: &Self::Case, strict: bool) -> Verdict;
    /// Does a worker crash (abort, signal) or a confirmed hang count as a violation of this property?
    fn crash_is_violation(&self) -> bool {
        false
    }
    /// Signature of a confirmed hang of this case (a property may name the shape that hangs, so that a listed
    /// finding excludes only that shape).
    fn hang_sig(&self, _case: &Value) -> String {
        "hang".into()
    }
    /// CPU seconds a single case may use before it becomes a hang candidate.
    fn cpu_budget(&self) -> f64 {
        20.0
    }
    /// worker thread stack size
    fn stack_bytes(&self) -> usize {
        2 << 20
    }
    /// Optional hook run once in the parent before the case loop (e.g. process-level sub-checks).
    /// Returns extra coverage keys and any failures (sig, detail, replay-json).
    fn parent_phase(&self, _tier: Tier, _seed: u64) -> ParentPhase {
        ParentPhase::default()
    }
    /// Engine B: a libFuzzer target that decodes bytes into cases of this property and judges them
    /// with the same oracle (thorough tier only; artifacts are re-judged in the sandbox).
    fn fuzz(&self) -> Option<FuzzSpec<Self::Case>> {
        None
    }
}

pub struct FuzzSpec<C> {
    /// name of the cargo-fuzz target in /verif/fuzz
    pub target: &'static str,
    /// wall-clock budget of the thorough campaign (seconds); more exploration, never a verdict by itself
    pub secs: u64,
    pub decode: fn(&[u8]) -> Option<C>,
}

#[derive(Default)]
pub struct ParentPhase {
    pub coverage: BTreeMap<String, Value>,
    pub evaluations: usize,
    pub nontrivial_hashes: Vec<u64>,
    pub samples: Vec<Value>,
    pub failures: Vec<(String, String, Value)>,
    pub labels: Vec<String>,
}

// ---------------------------------------------------------------------------
// hashing / seeding (fixed keys: runs are a pure function of the tree and VERIF_SEED)

pub fn splitmix(mut x: u64) -> u64 {
    x = x.wrapping_add(0x9E3779B97F4A7C15);
    let mut z = x;
    z = (z ^ (z >> 30)).wrapping_mul(0xBF58476D1CE4E5B9);
    z = (z ^ (z >> 27)).wrapping_mul(0x94D049BB133111EB);
    z ^ (z >> 31)
}

pub fn hash_bytes(b: &[u8]) -> u64 {
    // FNV-1a 64 followed by a splitmix finaliser
    let mut h: u64 = 0xcbf29ce484222325;
    for &x in b {
        h ^= x as u64;
        h = h.wrapping_mul(0x100000001b3);
    }
    splitmix(h)
}

pub fn case_rng(seed: u64, id: &str, family: &str, idx: usize) -> TestRng {
    let mut k = splitmix(seed ^ 0x5eed_5eed);
    k = splitmix(k ^ hash_bytes(id.as_bytes()));
    k = splitmix(k ^ hash_bytes(family.as_bytes()));
    k = splitmix(k ^ idx as u64);
    let mut bytes = [0u8; 32];
    for i in 0..4 {
        k = splitmix(k);
        bytes[i * 8..(i + 1) * 8].copy_from_slice(&k.to_le_bytes());
    }
    TestRng::from_seed(RngAlgorithm::ChaCha, &bytes)
}

pub fn runner_for(seed: u64, id: &str, family: &str, idx: usize) -> TestRunner {
    let cfg = Config { failure_persistence: None, ..Config::default() };
    TestRunner::new_with_rng(cfg, case_rng(seed, id, family, idx))
}

// ---------------------------------------------------------------------------
// known findings

#[derive(Clone, Debug, Serialize, Deserialize)]
pub struct Finding {
    pub id: String,
    pub property: String,
    /// "open" or "fixed"
    pub status: String,
    pub title: String,
    /// exact failure signature this entry covers
    pub sig: String,
    /// path (relative to /verif) of the committed replay file
    pub repro: String,
    #[serde(default)]
    pub fix_commit: Option<String>,
    #[serde(default)]
    pub line: Option<String>,
}

#[derive(Clone, Debug, Serialize, Deserialize, Default)]
pub struct Findings {
    pub findings: Vec<Finding>,
}

pub fn load_findings() -> Findings {
    let p = format!("{VERIF_DIR}/known_findings.json");
    match std::fs::read_to_string(&p) {
        Ok(s) => serde_json::from_str(&s).unwrap_or_else(|e| {
            eprintln!("cannot parse {p}: {e}");
            std::process::exit(2)
        }),
        Err(_) => Findings::default(),
    }
}

// ---------------------------------------------------------------------------
// worker side

#[derive(Serialize, Deserialize)]
struct Request {
    strict: bool,
    case: Value,
}

#[derive(Serialize, Deserialize)]
enum Response {
    Verdict(Verdict),
    HarnessPanic(String),
    BadCase(String),
}

pub fn worker_main<P: Property>(p: Arc<P>) -> i32 {
    crate::run::install_panic_hook();
    let stdin = std::io::stdin();
    let stdout = std::io::stdout();
    for line in stdin.lock().lines() {
        let line = match line {
            Ok(l) => l,
            Err(_) => break,
        };
        if line.is_empty() {
            continue;
        }
        let resp = match serde_json::from_str::<Request>(&line) {
            Err(e) => Response::BadCase(e.to_string()),
            Ok(req) => match serde_json::from_value::<P::Case>(req.case) {
                Err(e) => Response::BadCase(e.to_string()),
                Ok(case) => {
                    let p2 = p.clone();
                    let strict = req.strict;
                    let h = std::thread::Builder::new()
                        .stack_size(p.stack_bytes())
                        .spawn(move || {
                            let r = std::panic::catch_unwind(std::panic::AssertUnwindSafe(|| {
                                p2.judge(&case, strict)
                            }));
                            match r {
                                Ok(v) => Response::Verdict(v),
                                Err(_) => {
                                    let (l, m) = crate::run::take_last_panic()
                                        .unwrap_or(("?".into(), "?".into()));
                                    Response::HarnessPanic(format!("{l}: {m}"))
                                }
                            }
                        })
                        .expect("spawn case thread");
                    h.join().unwrap_or_else(|_| Response::HarnessPanic("case thread died".into()))
                }
            },
        };
        let mut out = stdout.lock();
        let _ = writeln!(out, "{}", serde_json::to_string(&resp).unwrap());
        let _ = out.flush();
    }
    0
}

// ---------------------------------------------------------------------------
// parent side: worker handle

pub enum Reply {
    Verdict(Verdict),
    Crash(String),
    Hang(f64),
    Broken(String),
}

pub struct Worker {
    child: Child,
    stdin: ChildStdin,
    rx: Receiver<String>,
    id: String,
}

fn cpu_seconds(pid: u32) -> Option<f64> {
    let s = std::fs::read_to_string(format!("/proc/{pid}/stat")).ok()?;
    let rest = &s[s.rfind(')')? + 1..];
    let f: Vec<&str> = rest.split_whitespace().collect();
    // after ')' fields start at index 0 = state (field 3); utime = field 14, stime = field 15
    let ut: f64 = f.get(11)?.parse().ok()?;
    let st: f64 = f.get(12)?.parse().ok()?;
    Some((ut + st) / 100.0)
}

impl Worker {
    pub fn spawn(id: &str) -> Worker {
        let exe = std::env::current_exe().expect("current_exe");
        // address-space limit: an input that makes svgdx allocate without bound must end as an
        // allocation failure (abort) of this worker, not as memory pressure on the whole machine
        let mut child = Command::new("/bin/sh")
            .arg("-c")
            .arg("ulimit -v 6291456; exec \"$0\" \"$@\"")
            .arg(exe)
            .arg("worker")
            .arg(id)
            .stdin(Stdio::piped())
            .stdout(Stdio::piped())
            .stderr(Stdio::null())
            .spawn()
            .expect("cannot spawn worker");
        let stdin = child.stdin.take().unwrap();
        let stdout = child.stdout.take().unwrap();
        let (tx, rx) = channel();
        std::thread::spawn(move || {
            let rd = BufReader::new(stdout);
            for line in rd.lines() {
                match line {
                    Ok(l) => {
                        if tx.send(l).is_err() {
                            break;
                        }
                    }
                    Err(_) => break,
                }
            }
        });
        Worker { child, stdin, rx, id: id.to_string() }
    }

    fn respawn(&mut self) {
        let _ = self.child.kill();
        let _ = self.child.wait();
        *self = Worker::spawn(&self.id.clone());
    }

    pub fn ask(&mut self, case: &Value, strict: bool, cpu_budget: f64) -> Reply {
        let line = serde_json::to_string(&json!({"strict": strict, "case": case})).unwrap();
        let pid = self.child.id();
        let cpu0 = cpu_seconds(pid).unwrap_or(0.0);
        let t0 = Instant::now();
        if writeln!(self.stdin, "{line}").and_then(|_| self.stdin.flush()).is_err() {
            // worker already dead (e.g. previous crash not yet noticed)
            let st = self.child.wait().ok();
            self.respawn();
            return Reply::Broken(format!("worker pipe closed before the case was sent ({st:?})"));
        }
        loop {
            match self.rx.recv_timeout(Duration::from_millis(50)) {
                Ok(l) => {
                    return match serde_json::from_str::<Response>(&l) {
                        Ok(Response::Verdict(v)) => Reply::Verdict(v),
                        Ok(Response::HarnessPanic(m)) => Reply::Broken(format!("harness panic: {m}")),
                        Ok(Response::BadCase(m)) => Reply::Broken(format!("bad case: {m}")),
                        Err(e) => Reply::Broken(format!("bad worker reply: {e}")),
                    }
                }
                Err(RecvTimeoutError::Disconnected) => {
                    let st = self.child.wait();
                    let desc = match st {
                        Ok(s) => {
                            use std::os::unix::process::ExitStatusExt;
                            if let Some(sig) = s.signal() {
                                format!("signal {sig}")
                            } else {
                                format!("exit {:?}", s.code())
                            }
                        }
                        Err(e) => format!("wait failed: {e}"),
                    };
                    self.respawn();
                    return Reply::Crash(desc);
                }
                Err(RecvTimeoutError::Timeout) => {
                    let cpu = cpu_seconds(pid).unwrap_or(cpu0) - cpu0;
                    if cpu > cpu_budget {
                        self.respawn();
                        return Reply::Hang(cpu);
                    }
                    let wall = t0.elapsed().as_secs_f64();
                    if wall > (cpu_budget * 20.0).max(600.0) {
                        self.respawn();
                        return Reply::Broken(format!(
                            "worker blocked: {wall:.0}s wall, {cpu:.1}s cpu"
                        ));
                    }
                }
            }
        }
    }
}

impl Drop for Worker {
    fn drop(&mut self) {
        let _ = self.child.kill();
        let _ = self.child.wait();
    }
}

// ---------------------------------------------------------------------------
// check driver

#[derive(Clone, Debug)]
pub(crate) enum ResKind {
    Pass,
    Skip(String),
    Fail { sig: String, detail: String },
    Known(String),
    Broken(String),
}

struct CaseRes {
    item: usize,
    kind: ResKind,
    nontrivial: bool,
    labels: Vec<String>,
    evals: u32,
    hash: u64,
    json_len: usize,
    sample: Option<Value>,
    ms: u64,
}

fn sample_view(v: &Value) -> Value {
    let s = serde_json::to_string(v).unwrap();
    if s.len() <= 3000 {
        v.clone()
    } else {
        json!({"truncated_case_json": crate::run::trunc(&s, 3000), "bytes": s.len()})
    }
}

struct Shared<C> {
    items: Vec<(usize, usize)>, // (family idx, index within family)
    next: AtomicUsize,
    fail_at: AtomicUsize,
    broken: AtomicBool,
    results: Mutex<Vec<CaseRes>>,
    fixed: Vec<Option<Vec<C>>>,
}

pub(crate) fn classify<P: Property>(
    p: &P,
    w: &mut Worker,
    case_json: &Value,
    strict: bool,
    open_sigs: &HashSet<String>,
    hang_cleared: &AtomicUsize,
) -> (ResKind, Option<Verdict>) {
    let budget = p.cpu_budget();
    let mut reply = w.ask(case_json, strict, budget);
    if let Reply::Hang(_) = reply {
        // a shape already listed as an open finding is not given the second, long run: calling it
        // "still hangs" raises no alarm, so there is nothing to protect against
        let sig = p.hang_sig(case_json);
        if p.crash_is_violation() && open_sigs.contains(&sig) {
            return if strict { (ResKind::Fail { sig, detail: format!("case still running after {budget:.0} CPU seconds (listed shape, first-stage budget only)") }, None) } else { (ResKind::Known(sig), None) };
        }
        // two-stage rule: re-run alone with 10x the budget before calling it a hang
        reply = w.ask(case_json, strict, budget * 10.0);
        if !matches!(reply, Reply::Hang(_)) {
            hang_cleared.fetch_add(1, Ordering::Relaxed);
        }
    }
    match reply {
        Reply::Verdict(v) => {
            let k = match v.status {
                Status::Pass => ResKind::Pass,
                Status::Skip => ResKind::Skip(v.sig.clone()),
                Status::Fail => {
                    if !strict && open_sigs.contains(&v.sig) {
                        ResKind::Known(v.sig.clone())
                    } else {
                        ResKind::Fail { sig: v.sig.clone(), detail: v.detail.clone() }
                    }
                }
            };
            (k, Some(v))
        }
        Reply::Crash(desc) => {
            let sig = format!("crash:{desc}");
            if p.crash_is_violation() {
                if !strict && open_sigs.contains(&sig) {
                    (ResKind::Known(sig), None)
                } else {
                    (ResKind::Fail { sig, detail: "worker process died while executing the case".into() }, None)
                }
            } else {
                (ResKind::Skip(format!("crash-outside-this-property({desc})")), None)
            }
        }
        Reply::Hang(cpu) => {
            let sig = p.hang_sig(case_json);
            if p.crash_is_violation() {
                (ResKind::Fail { sig, detail: format!("case still running after {cpu:.0} CPU seconds (two-stage budget)") }, None)
            } else {
                (ResKind::Skip("hang-outside-this-property".into()), None)
            }
        }
        Reply::Broken(m) => (ResKind::Broken(m), None),
    }
}

pub(crate) fn write_json(path: &str, v: &Value) {
    if let Some(dir) = std::path::Path::new(path).parent() {
        let _ = std::fs::create_dir_all(dir);
    }
    let tmp = format!("{path}.tmp{}", std::process::id());
    std::fs::write(&tmp, serde_json::to_string_pretty(v).unwrap()).expect("write json");
    std::fs::rename(&tmp, path).expect("rename json");
}

pub fn run_check<P: Property>(p: Arc<P>, tier: Tier, seed: u64) -> i32 {
    let t0 = Instant::now();
    let id = p.id();
    let findings = load_findings();
    let mine: Vec<&Finding> = findings.findings.iter().filter(|f| f.property == id).collect();
    let open_sigs: HashSet<String> =
        mine.iter().filter(|f| f.status == "open").map(|f| f.sig.clone()).collect();
    let mut violations: Vec<(String, String)> = Vec::new(); // (replay path, sig)
    let mut known_lines: Vec<String> = Vec::new();
    let hang_cleared = Arc::new(AtomicUsize::new(0));

    // 1. committed repros of known findings (open: must still fail the same way to be
    //    announced; fixed: plain regression, must pass)
    let mut regress = 0usize;
    {
        let mut w = Worker::spawn(id);
        for f in &mine {
            let path = format!("{VERIF_DIR}/{}", f.repro);
            let txt = match std::fs::read_to_string(&path) {
                Ok(t) => t,
                Err(e) => {
                    eprintln!("known finding {}: cannot read {path}: {e}", f.id);
                    return 2;
                }
            };
            let rv: Value = serde_json::from_str(&txt).expect("replay json");
            let case = rv.get("case").cloned().unwrap_or(Value::Null);
            let (k, _) = classify(&*p, &mut w, &case, true, &open_sigs, &hang_cleared);
            regress += 1;
            match (f.status.as_str(), k) {
                ("open", ResKind::Fail { sig, .. }) if sig == f.sig => {
                    known_lines.push(format!("KNOWN-FINDING: property={id} {} [{}]", f.title, f.id));
                }
                ("open", ResKind::Fail { sig, detail }) => {
                    eprintln!("known finding {} now fails differently: {sig}: {detail}", f.id);
                    violations.push((path.clone(), sig));
                }
                ("open", ResKind::Broken(m)) | ("fixed", ResKind::Broken(m)) => {
                    eprintln!("machinery broken on repro {}: {m}", f.id);
                    return 2;
                }
                ("open", _) => {
                    eprintln!("note: known finding {} no longer reproduces on this tree", f.id);
                }
                ("fixed", ResKind::Fail { sig, detail }) => {
                    eprintln!("regression of fixed finding {}: {sig}: {detail}", f.id);
                    violations.push((path.clone(), sig));
                }
                _ => {}
            }
        }
    }
    for l in &known_lines {
        println!("{l}");
    }

    // 2. optional parent phase
    let pp = p.parent_phase(tier, seed);
    for (sig, detail, rj) in &pp.failures {
        let h = hash_bytes(serde_json::to_string(rj).unwrap().as_bytes());
        let path = format!("{VERIF_DIR}/replays/{id}/{h:016x}.json");
        write_json(&path, &json!({"property": id, "family": "parent_phase", "sig": sig, "detail": detail, "case": rj}));
        eprintln!("FAIL [{sig}] {detail}");
        violations.push((path, sig.clone()));
    }

    // 2b. Engine B (thorough only): coverage-guided campaign, artifacts re-judged in the sandbox
    let mut fuzz_cov: Option<Value> = None;
    if tier == Tier::Thorough {
        if let Some(spec) = p.fuzz() {
            let fr = crate::fuzzdrv::campaign(&*p, &spec, seed, &open_sigs, &hang_cleared);
            if let Some(m) = fr.broken {
                eprintln!("MACHINERY BROKEN (libFuzzer engine, property {id}): {m}");
                return 2;
            }
            for (sig, detail, rj) in &fr.failures {
                let h = hash_bytes(serde_json::to_string(rj).unwrap().as_bytes());
                let path = format!("{VERIF_DIR}/replays/{id}/{h:016x}.json");
                write_json(&path, &json!({"property": id, "family": "libfuzzer", "sig": sig, "detail": detail, "case": rj}));
                eprintln!("FAIL property={id} family=libfuzzer [{sig}] {}", crate::run::trunc(detail, 2000));
                violations.push((path, sig.clone()));
            }
            fuzz_cov = Some(fr.coverage);
        }
    }

    // 3. generated families
    let fams = p.families(tier);
    let mut items = Vec::new();
    let mut fixed: Vec<Option<Vec<P::Case>>> = Vec::new();
    let mut fam_meta: Vec<(&'static str, Option<fn(Tier) -> BoxedStrategy<P::Case>>, bool, usize)> = Vec::new();
    for (fi, f) in fams.iter().enumerate() {
        for i in 0..f.len() {
            items.push((fi, i));
        }
        match &f.kind {
            FamilyKind::Random { strat, cases } => {
                fixed.push(None);
                fam_meta.push((f.name, Some(*strat), false, *cases));
            }
            FamilyKind::Fixed(v) => {
                fixed.push(Some(v.clone()));
                fam_meta.push((f.name, None, f.exhaustive, v.len()));
            }
        }
    }
    drop(fams);
    let n_items = items.len();
    let shared = Arc::new(Shared::<P::Case> {
        items,
        next: AtomicUsize::new(0),
        fail_at: AtomicUsize::new(usize::MAX),
        broken: AtomicBool::new(false),
        results: Mutex::new(Vec::with_capacity(n_items)),
        fixed,
    });
    let fam_meta = Arc::new(fam_meta);
    let open_sigs = Arc::new(open_sigs);
    let nthreads = std::env::var("VERIF_JOBS")
        .ok()
        .and_then(|s| s.parse::<usize>().ok())
        .unwrap_or_else(|| std::thread::available_parallelism().map(|n| n.get()).unwrap_or(4))
        .min(n_items.max(1));
    let mut handles = Vec::new();
    for _ in 0..nthreads {
        let p = p.clone();
        let shared = shared.clone();
        let fam_meta = fam_meta.clone();
        let open_sigs = open_sigs.clone();
        let hang_cleared = hang_cleared.clone();
        handles.push(
            std::thread::Builder::new()
                .stack_size(64 << 20)
                .spawn(move || {
                    let mut w = Worker::spawn(p.id());
                    let mut strategies: HashMap<usize, BoxedStrategy<P::Case>> = HashMap::new();
                    loop {
                        let item = shared.next.fetch_add(1, Ordering::SeqCst);
                        if item >= shared.items.len()
                            || item > shared.fail_at.load(Ordering::SeqCst)
                            || shared.broken.load(Ordering::SeqCst)
                        {
                            break;
                        }
                        let (fi, i) = shared.items[item];
                        let (fname, strat, _, _) = fam_meta[fi];
                        let case: P::Case = match &shared.fixed[fi] {
                            Some(v) => v[i].clone(),
                            None => {
                                let s = strategies
                                    .entry(fi)
                                    .or_insert_with(|| (strat.unwrap())(tier));
                                let mut runner = runner_for(seed, p.id(), fname, i);
                                match s.new_tree(&mut runner) {
                                    Ok(t) => t.current(),
                                    Err(e) => {
                                        shared.broken.store(true, Ordering::SeqCst);
                                        shared.results.lock().unwrap().push(CaseRes {
                                            item,
                                            kind: ResKind::Broken(format!("generator rejected: {e}")),
                                            nontrivial: false,
                                            labels: vec![],
                                            evals: 0,
                                            hash: 0,
                                            json_len: 0,
                                            sample: None,
                                            ms: 0,
                                        });
                                        break;
                                    }
                                }
                            }
                        };
                        let cj = serde_json::to_value(&case).expect("case to json");
                        let cs = serde_json::to_string(&cj).unwrap();
                        let t_case = Instant::now();
                        let (kind, v) = classify(&*p, &mut w, &cj, false, &open_sigs, &hang_cleared);
                        let ms = t_case.elapsed().as_millis() as u64;
                        match &kind {
                            ResKind::Fail { .. } => {
                                shared.fail_at.fetch_min(item, Ordering::SeqCst);
                            }
                            ResKind::Broken(_) => shared.broken.store(true, Ordering::SeqCst),
                            _ => {}
                        }
                        let (nontrivial, mut labels, evals) = match &v {
                            Some(v) => (v.nontrivial, v.labels.clone(), v.evals),
                            None => (true, vec![], 1),
                        };
                        labels.push(format!("family:{fname}"));
                        let keep_sample = nontrivial || matches!(kind, ResKind::Fail { .. });
                        shared.results.lock().unwrap().push(CaseRes {
                            item,
                            kind,
                            nontrivial,
                            labels,
                            evals,
                            hash: hash_bytes(cs.as_bytes()),
                            json_len: cs.len(),
                            sample: if keep_sample && (i < 2 || cs.len() < 1500) { Some(cj) } else { None },
                            ms,
                        });
                    }
                })
                .unwrap(),
        );
    }
    let mut driver_panicked = false;
    for h in handles {
        if h.join().is_err() {
            driver_panicked = true;
        }
    }
    if driver_panicked {
        eprintln!("MACHINERY BROKEN property={id}: a driver thread panicked (generator or engine bug); the run is incomplete and is no verdict");
        return 2;
    }
    let mut results = std::mem::take(&mut *shared.results.lock().unwrap());
    results.sort_by_key(|r| r.item);

    if let Some(b) = results.iter().find(|r| matches!(r.kind, ResKind::Broken(_))) {
        if let ResKind::Broken(m) = &b.kind {
            let (fi, i) = shared.items[b.item];
            eprintln!("MACHINERY BROKEN property={id} family={} index={i}: {m}", fam_meta[fi].0);
        }
        return 2;
    }

    if !results.iter().any(|r| matches!(r.kind, ResKind::Fail { .. })) && results.len() != n_items {
        eprintln!("MACHINERY BROKEN property={id}: {} of {n_items} cases produced a result", results.len());
        return 2;
    }
    // first failure in item order -> shrink -> replay file
    if let Some(f) = results.iter().find(|r| matches!(r.kind, ResKind::Fail { .. })) {
        let (fi, i) = shared.items[f.item];
        let (fname, strat, _, _) = fam_meta[fi];
        let (sig0, detail0) = match &f.kind {
            ResKind::Fail { sig, detail } => (sig.clone(), detail.clone()),
            _ => unreachable!(),
        };
        let mut w = Worker::spawn(id);
        let mut best: Value;
        let mut best_sig = sig0.clone();
        let mut best_detail = detail0.clone();
        let mut shrink_steps = 0usize;
        match strat {
            None => {
                best = serde_json::to_value(&shared.fixed[fi].as_ref().unwrap()[i]).unwrap();
            }
            Some(strat) => {
                let s = strat(tier);
                let mut runner = runner_for(seed, id, fname, i);
                let mut tree = s.new_tree(&mut runner).expect("regenerate failing tree");
                best = serde_json::to_value(tree.current()).unwrap();
                let t_shrink = Instant::now();
                let max_wall = if tier == Tier::Quick { 60.0 } else { 240.0 };
                'outer: while tree.simplify() {
                    loop {
                        if shrink_steps > 3000 || t_shrink.elapsed().as_secs_f64() > max_wall {
                            break 'outer;
                        }
                        shrink_steps += 1;
                        let cj = serde_json::to_value(tree.current()).unwrap();
                        let (k, _) = classify(&*p, &mut w, &cj, false, &open_sigs, &hang_cleared);
                        if let ResKind::Fail { sig, detail } = k {
                            best = cj;
                            best_sig = sig;
                            best_detail = detail;
                            break;
                        } else if !tree.complicate() {
                            break 'outer;
                        }
                    }
                }
            }
        }
        let h = hash_bytes(serde_json::to_string(&best).unwrap().as_bytes());
        let path = format!("{VERIF_DIR}/replays/{id}/{h:016x}.json");
        write_json(
            &path,
            &json!({
                "property": id, "family": fname, "seed": seed, "index": i, "tier": tier.name(),
                "sig": best_sig, "detail": best_detail, "shrink_steps": shrink_steps,
                "original_sig": sig0, "case": best,
            }),
        );
        eprintln!(
            "FAIL property={id} family={fname} index={i} [{best_sig}] {}",
            crate::run::trunc(&best_detail, 2000)
        );
        violations.push((path, best_sig));
    }

    // 4. evidence
    let mut hist: BTreeMap<String, usize> = BTreeMap::new();
    let mut skipped: BTreeMap<String, usize> = BTreeMap::new();
    let mut known_excluded: BTreeMap<String, usize> = BTreeMap::new();
    let mut distinct: HashSet<u64> = HashSet::new();
    let mut evaluations = 0usize;
    let mut cases = 0usize;
    let mut samples: Vec<Value> = Vec::new();
    let mut per_family_samples: HashMap<String, usize> = HashMap::new();
    let mut smallest: Option<(usize, &Value)> = None;
    let mut largest: Option<(usize, &Value)> = None;
    for r in &results {
        cases += 1;
        evaluations += r.evals.max(1) as usize;
        for l in &r.labels {
            *hist.entry(l.clone()).or_default() += 1;
        }
        match &r.kind {
            ResKind::Skip(s) => *skipped.entry(s.clone()).or_default() += 1,
            ResKind::Known(s) => *known_excluded.entry(s.clone()).or_default() += 1,
            _ => {}
        }
        let counts = matches!(r.kind, ResKind::Pass | ResKind::Fail { .. } | ResKind::Known(_));
        if r.nontrivial && counts {
            distinct.insert(r.hash);
            if let Some(s) = &r.sample {
                let fam = r.labels.last().cloned().unwrap_or_default();
                let c = per_family_samples.entry(fam).or_default();
                if *c < 2 {
                    *c += 1;
                    samples.push(sample_view(s));
                }
                if smallest.map(|(l, _)| r.json_len < l).unwrap_or(true) {
                    smallest = Some((r.json_len, s));
                }
                if largest.map(|(l, _)| r.json_len > l).unwrap_or(true) {
                    largest = Some((r.json_len, s));
                }
            }
        }
    }
    // where the time went (wall ms per label; informational only, never a verdict)
    let mut ms_by_label: BTreeMap<String, u64> = BTreeMap::new();
    for r in &results {
        for l in &r.labels {
            if l.starts_with("family:") || l.starts_with("shape:") {
                *ms_by_label.entry(l.clone()).or_default() += r.ms;
            }
        }
    }
    if let Some((_, s)) = smallest {
        samples.push(json!({"smallest_nontrivial": sample_view(s)}));
    }
    if let Some((_, s)) = largest {
        samples.push(json!({"largest_nontrivial_with_sample": sample_view(s)}));
    }
    for h in &pp.nontrivial_hashes {
        distinct.insert(*h);
    }
    samples.extend(pp.samples.iter().cloned());
    for l in &pp.labels {
        *hist.entry(l.clone()).or_default() += 1;
    }
    evaluations += pp.evaluations + regress;
    let exhaustive_fams: Vec<&str> = fam_meta.iter().filter(|m| m.2).map(|m| m.0).collect();
    let all_exhaustive = !fam_meta.is_empty() && fam_meta.iter().all(|m| m.2);
    let fam_sizes: BTreeMap<&str, usize> = fam_meta.iter().map(|m| (m.0, m.3)).collect();
    let mut coverage = serde_json::Map::new();
    coverage.insert("evaluations".into(), json!(evaluations));
    coverage.insert("cases".into(), json!(cases));
    coverage.insert("distinct_nontrivial".into(), json!(distinct.len()));
    coverage.insert("rule".into(), json!(p.rule()));
    coverage.insert("samples".into(), json!(samples));
    coverage.insert("class_histogram".into(), json!(hist));
    coverage.insert("skipped".into(), json!(skipped));
    coverage.insert("known_excluded".into(), json!(known_excluded));
    coverage.insert("known_findings_announced".into(), json!(known_lines));
    coverage.insert("regression_replays".into(), json!(regress));
    coverage.insert("hang_candidates_cleared".into(), json!(hang_cleared.load(Ordering::Relaxed)));
    coverage.insert("families".into(), json!(fam_sizes));
    coverage.insert("wall_ms_by_label".into(), json!(ms_by_label));
    coverage.insert("exhaustive_families".into(), json!(exhaustive_fams));
    if all_exhaustive {
        coverage.insert("exhaustive".into(), json!(true));
    }
    if p.level() == "translation_validation" {
        coverage.insert("programs".into(), json!(cases));
        coverage.insert(
            "disagreements_checked".into(),
            json!(results.iter().filter(|r| matches!(r.kind, ResKind::Pass | ResKind::Fail { .. })).count()),
        );
    }
    for (k, v) in pp.coverage {
        coverage.insert(k, v);
    }
    if let Some(fc) = fuzz_cov {
        coverage.insert("libfuzzer_campaign".into(), fc);
    }
    let ev = json!({
        "property_id": id,
        "tier": tier.name(),
        "seed": seed,
        "level": p.level(),
        "coverage": Value::Object(coverage),
        "assumptions": p.assumptions(),
        "wall_s": t0.elapsed().as_secs_f64(),
        "violations": violations.len(),
    });
    write_json(&format!("{VERIF_DIR}/evidence/{id}.json"), &ev);

    eprintln!(
        "{id} {}: {} cases, {} transforms, {} distinct non-trivial, {} skipped, {} known-excluded, {:.1}s",
        tier.name(),
        cases,
        evaluations,
        distinct.len(),
        skipped.values().sum::<usize>(),
        known_excluded.values().sum::<usize>(),
        t0.elapsed().as_secs_f64()
    );
    if !skipped.is_empty() {
        eprintln!("  skipped: {skipped:?}");
    }
    // vacuity guard: a run that explored (almost) nothing is not a verdict
    let explored = results.iter().filter(|r| matches!(r.kind, ResKind::Pass | ResKind::Fail { .. } | ResKind::Known(_))).count();
    if violations.is_empty() {
        if n_items > 0 && (explored * 10 < cases || distinct.len() < 2) {
            eprintln!("INCONCLUSIVE property={id}: only {explored} of {cases} cases could be judged ({} distinct non-trivial)", distinct.len());
            return 2;
        }
        0
    } else {
        for (path, _sig) in &violations {
            println!("VIOLATION property={id} replay={path}");
        }
        1
    }
}

pub fn run_replay<P: Property>(p: Arc<P>, path: &str) -> i32 {
    let id = p.id();
    let txt = match std::fs::read_to_string(path) {
        Ok(t) => t,
        Err(e) => {
            eprintln!("cannot read {path}: {e}");
            return 2;
        }
    };
    let rv: Value = match serde_json::from_str(&txt) {
        Ok(v) => v,
        Err(e) => {
            eprintln!("cannot parse {path}: {e}");
            return 2;
        }
    };
    let case = rv.get("case").cloned().unwrap_or(Value::Null);
    let mut w = Worker::spawn(id);
    let hc = AtomicUsize::new(0);
    let (k, v) = classify(&*p, &mut w, &case, true, &HashSet::new(), &hc);
    match k {
        ResKind::Fail { sig, detail } => {
            eprintln!("replay FAIL [{sig}] {detail}");
            println!("VIOLATION property={id} replay={path}");
            1
        }
        ResKind::Broken(m) => {
            eprintln!("machinery broken: {m}");
            2
        }
        other => {
            eprintln!("replay: {other:?} {:?}", v.map(|v| v.labels));
            0
        }
    }
}

// ---------------------------------------------------------------------------
// type-erased registry entry

pub trait DynProperty: Send + Sync {
    fn id(&self) -> &'static str;
    fn check(&self, tier: Tier, seed: u64) -> i32;
    fn worker(&self) -> i32;
    fn replay(&self, path: &str) -> i32;
    /// judge one libFuzzer input in this process (None: outside the property's domain / no fuzz target)
    fn fuzz_one(&self, data: &[u8]) -> Option<Verdict>;
    fn fuzz_target(&self) -> Option<&'static str>;
    /// development aid: run only the libFuzzer campaign and print what it covered
    fn fuzz_only(&self, seed: u64) -> i32;
}

pub struct Entry<P: Property>(pub Arc<P>);

impl<P: Property> DynProperty for Entry<P> {
    fn id(&self) -> &'static str {
        self.0.id()
    }
    fn check(&self, tier: Tier, seed: u64) -> i32 {
        run_check(self.0.clone(), tier, seed)
    }
    fn worker(&self) -> i32 {
        worker_main(self.0.clone())
    }
    fn replay(&self, path: &str) -> i32 {
        run_replay(self.0.clone(), path)
    }
    fn fuzz_one(&self, data: &[u8]) -> Option<Verdict> {
        let spec = self.0.fuzz()?;
        let case = (spec.decode)(data)?;
        Some(self.0.judge(&case, false))
    }
    fn fuzz_target(&self) -> Option<&'static str> {
        self.0.fuzz().map(|s| s.target)
    }
    fn fuzz_only(&self, seed: u64) -> i32 {
        let Some(spec) = self.0.fuzz() else {
            eprintln!("no libFuzzer target for {}", self.0.id());
            return 2;
        };
        let open: HashSet<String> = load_findings().findings.iter().filter(|f| f.property == self.0.id() && f.status == "open").map(|f| f.sig.clone()).collect();
        let hc = AtomicUsize::new(0);
        let fr = crate::fuzzdrv::campaign(&*self.0, &spec, seed, &open, &hc);
        println!("{}", serde_json::to_string_pretty(&fr.coverage).unwrap());
        if let Some(m) = fr.broken {
            eprintln!("BROKEN: {m}");
            return 2;
        }
        for (sig, detail, case) in &fr.failures {
            let h = hash_bytes(serde_json::to_string(case).unwrap().as_bytes());
            let path = format!("{VERIF_DIR}/replays/{}/{h:016x}.json", self.0.id());
            write_json(&path, &json!({"property": self.0.id(), "family": "libfuzzer", "sig": sig, "detail": detail, "case": case}));
            eprintln!("FAIL [{sig}] {}", crate::run::trunc(detail, 3000));
            println!("VIOLATION property={} replay={path}", self.0.id());
        }
        if fr.failures.is_empty() { 0 } else { 1 }
    }
}

pub fn entry<P: Property>(p: P) -> Box<dyn DynProperty> {
    Box::new(Entry(Arc::new(p)))
}
