//! Geometry shared by the layout oracles: boxes in f64, locations, scalars, and
//! readers that recover an element's geometry from the *output's* native attributes.

use crate::sxml::Element;
use serde::{Deserialize, Serialize};

/// base tolerance per rounding step (svgdx prints with <= 3 decimals)
pub const TAU: f64 = 0.0006;

pub fn tol(steps: usize, v: f64) -> f64 {
    (TAU + 2e-6 * v.abs()) * (steps as f64 + 1.0)
}

pub fn close(a: f64, b: f64, steps: usize) -> bool {
    (a - b).abs() <= tol(steps, a.abs().max(b.abs()))
}

#[derive(Clone, Copy, Debug, PartialEq, Serialize, Deserialize)]
pub struct BBox {
    pub x1: f64,
    pub y1: f64,
    pub x2: f64,
    pub y2: f64,
}

impl BBox {
    pub fn new(x1: f64, y1: f64, x2: f64, y2: f64) -> Self {
        BBox { x1, y1, x2, y2 }
    }
    pub fn xywh(x: f64, y: f64, w: f64, h: f64) -> Self {
        BBox { x1: x, y1: y, x2: x + w, y2: y + h }
    }
    pub fn w(&self) -> f64 {
        self.x2 - self.x1
    }
    pub fn h(&self) -> f64 {
        self.y2 - self.y1
    }
    pub fn cx(&self) -> f64 {
        (self.x1 + self.x2) / 2.0
    }
    pub fn cy(&self) -> f64 {
        (self.y1 + self.y2) / 2.0
    }
    pub fn union(&self, o: &BBox) -> BBox {
        BBox::new(self.x1.min(o.x1), self.y1.min(o.y1), self.x2.max(o.x2), self.y2.max(o.y2))
    }
    pub fn intersect(&self, o: &BBox) -> Option<BBox> {
        let r = BBox::new(self.x1.max(o.x1), self.y1.max(o.y1), self.x2.min(o.x2), self.y2.min(o.y2));
        if r.w() >= 0.0 && r.h() >= 0.0 {
            Some(r)
        } else {
            None
        }
    }
    pub fn translate(&self, dx: f64, dy: f64) -> BBox {
        BBox::new(self.x1 + dx, self.y1 + dy, self.x2 + dx, self.y2 + dy)
    }
    pub fn approx(&self, o: &BBox, steps: usize) -> bool {
        close(self.x1, o.x1, steps) && close(self.y1, o.y1, steps) && close(self.x2, o.x2, steps) && close(self.y2, o.y2, steps)
    }
    /// one of the nine named locations
    pub fn loc(&self, l: &str) -> (f64, f64) {
        match l {
            "tl" => (self.x1, self.y1),
            "t" => (self.cx(), self.y1),
            "tr" => (self.x2, self.y1),
            "r" => (self.x2, self.cy()),
            "br" => (self.x2, self.y2),
            "b" => (self.cx(), self.y2),
            "bl" => (self.x1, self.y2),
            "l" => (self.x1, self.cy()),
            _ => (self.cx(), self.cy()),
        }
    }
    /// edge location: offset measured from the start of the edge (left / top), negative from its end, or a ratio along it
    pub fn edge(&self, e: &str, off: EdgeOff) -> (f64, f64) {
        let along = |s: f64, t: f64| match off {
            EdgeOff::Abs(a) => {
                if a < 0.0 {
                    t + a
                } else {
                    s + a
                }
            }
            EdgeOff::Ratio(r) => s + (t - s) * r,
        };
        match e {
            "t" => (along(self.x1, self.x2), self.y1),
            "b" => (along(self.x1, self.x2), self.y2),
            "l" => (self.x1, along(self.y1, self.y2)),
            _ => (self.x2, along(self.y1, self.y2)),
        }
    }
    pub fn scalar(&self, s: &str) -> f64 {
        match s {
            "x" | "x1" => self.x1,
            "y" | "y1" => self.y1,
            "x2" => self.x2,
            "y2" => self.y2,
            "cx" => self.cx(),
            "cy" => self.cy(),
            "w" | "width" => self.w().abs(),
            "h" | "height" => self.h().abs(),
            "rx" => self.w().abs() / 2.0,
            "ry" => self.h().abs() / 2.0,
            "r" => (self.w().abs() / 2.0).max(self.h().abs() / 2.0),
            _ => f64::NAN,
        }
    }
}

#[derive(Clone, Copy, Debug, PartialEq, Serialize, Deserialize)]
pub enum EdgeOff {
    Abs(f64),
    Ratio(f64),
}

pub fn fnum(e: &Element, k: &str) -> Option<f64> {
    e.attr(k).and_then(|v| v.trim().parse::<f64>().ok())
}

pub fn fnum0(e: &Element, k: &str) -> f64 {
    fnum(e, k).unwrap_or(0.0)
}

pub fn parse_points(s: &str) -> Vec<(f64, f64)> {
    let nums: Vec<f64> = s.split(|c: char| c.is_whitespace() || c == ',').filter(|t| !t.is_empty()).filter_map(|t| t.parse().ok()).collect();
    nums.chunks(2).filter(|c| c.len() == 2).map(|c| (c[0], c[1])).collect()
}

/// Geometry of a rendered output element from its own native attributes (no transforms applied).
pub fn out_bbox(e: &Element) -> Option<BBox> {
    match e.name.as_str() {
        "rect" | "image" | "foreignObject" => {
            let (w, h) = (fnum(e, "width")?, fnum(e, "height")?);
            Some(BBox::xywh(fnum0(e, "x"), fnum0(e, "y"), w, h))
        }
        "circle" => {
            let r = fnum(e, "r")?;
            let (cx, cy) = (fnum0(e, "cx"), fnum0(e, "cy"));
            Some(BBox::new(cx - r, cy - r, cx + r, cy + r))
        }
        "ellipse" => {
            let (rx, ry) = (fnum(e, "rx")?, fnum(e, "ry")?);
            let (cx, cy) = (fnum0(e, "cx"), fnum0(e, "cy"));
            Some(BBox::new(cx - rx, cy - ry, cx + rx, cy + ry))
        }
        "line" => {
            let (x1, y1, x2, y2) = (fnum0(e, "x1"), fnum0(e, "y1"), fnum0(e, "x2"), fnum0(e, "y2"));
            Some(BBox::new(x1.min(x2), y1.min(y2), x1.max(x2), y1.max(y2)))
        }
        "polyline" | "polygon" => {
            let pts = parse_points(e.attr("points")?);
            if pts.is_empty() {
                return None;
            }
            let mut b = BBox::new(pts[0].0, pts[0].1, pts[0].0, pts[0].1);
            for (x, y) in pts {
                b = b.union(&BBox::new(x, y, x, y));
            }
            Some(b)
        }
        "text" => Some(BBox::new(fnum0(e, "x"), fnum0(e, "y"), fnum0(e, "x"), fnum0(e, "y"))),
        _ => None,
    }
}

/// Apply a `transform` attribute consisting of translate()/scale() (others ignored, as documented) to a box.
pub fn apply_transform(b: &BBox, t: &str) -> BBox {
    // functions apply right-to-left
    let mut fns: Vec<(String, Vec<f64>)> = Vec::new();
    for part in t.split(')') {
        let part = part.trim().trim_start_matches(',').trim();
        if let Some((name, args)) = part.split_once('(') {
            let a: Vec<f64> = args.split(|c: char| c.is_whitespace() || c == ',').filter(|s| !s.is_empty()).filter_map(|s| s.parse().ok()).collect();
            fns.push((name.trim().to_string(), a));
        }
    }
    let mut r = *b;
    for (name, a) in fns.iter().rev() {
        match name.as_str() {
            "translate" => {
                let tx = a.first().copied().unwrap_or(0.0);
                let ty = a.get(1).copied().unwrap_or(0.0);
                r = r.translate(tx, ty);
            }
            "scale" => {
                let sx = a.first().copied().unwrap_or(1.0);
                let sy = a.get(1).copied().unwrap_or(sx);
                let (xa, xb) = (r.x1 * sx, r.x2 * sx);
                let (ya, yb) = (r.y1 * sy, r.y2 * sy);
                r = BBox::new(xa.min(xb), ya.min(yb), xa.max(xb), ya.max(yb));
            }
            _ => {}
        }
    }
    r
}
